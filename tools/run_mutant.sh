#!/bin/bash
# run_mutant.sh <seed-name> <check-id> [tier]
# Applies /verif/seeded/<seed-name>/patch.diff to a scratch worktree of /repo HEAD and runs the check
# (or of the commit named by SEED_BASE, for seeds whose target code was rewritten by a later fix) against it (VERIF_REPO), with evidence/replays redirected to /tmp; removes the worktree afterwards.
seed=$1; id=$2; tier=${3:-quick}
wt=/tmp/mut/$seed-$id
rm -rf $wt; mkdir -p /tmp/mut /tmp/mut/ev-$seed-$id
git -C /repo worktree add -q --detach $wt ${SEED_BASE:-HEAD} || exit 9
git -C $wt apply /verif/seeded/$seed/patch.diff || { echo "patch failed"; git -C /repo worktree remove --force $wt; exit 9; }
cd /verif
VERIF_REPO=$wt VERIF_EVIDENCE_DIR=/tmp/mut/ev-$seed-$id VERIF_REPLAY_DIR=/tmp/mut/ev-$seed-$id python3-vt check.py $id $tier
rc=$?
echo "== $seed vs $id [$tier]: exit $rc"
git -C /repo worktree remove --force $wt
rm -rf /tmp/mut/ev-$seed-$id
exit $rc
