#!/bin/bash
# seed_matrix.sh [seed...] : runs each seed against the check of its own property (quick tier) and a few related
# checks; appends "seed check exit" lines to seeded/matrix.txt
cd /verif
seeds=${@:-$(ls seeded | grep -v README | grep -v matrix)}
declare -A REL=( [C01]="C01 C10 C04" [C02]="C02 C01" [C03]="C03 C01" [C04]="C04 C01" [C05]="C05 C01" [C06]="C06 C09" [C07]="C07 C04" [C09]="C09" [C10]="C10 C09" [C11]="C11 C09" [C12]="C12" [C13]="C13" [C14]="C14 C07" [C15]="C15 C07" [C17]="C17 C11 C01" [C18]="C18 C09" )
for s in $seeds; do
  p=${s%%-*}
  for c in ${REL[$p]}; do
    out=$(tools/run_mutant.sh $s $c quick 2>&1)
    rc=$(echo "$out" | grep "^== " | sed 's/.*exit //')
    first=$(echo "$out" | grep -A1 "^VIOLATION" | grep -v "^VIOLATION\|^--" | head -1 | cut -c1-220)
    echo "$s $c exit=$rc $first" | tee -a seeded/matrix.txt
    [ "$rc" = "1" ] && break
  done
done
