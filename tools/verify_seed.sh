#!/bin/bash
# verify_seed.sh <dir-with-patch.diff-and-demo.py> : checks, in a scratch worktree of /repo HEAD,
# that the patch applies, the suite passes with it, demo fails with it and passes without it.
set -u
d=$(realpath "$1"); name=$(basename $(dirname $d))-$(basename $d)
wt=/tmp/vseed/$name
rm -rf $wt; mkdir -p /tmp/vseed
git -C /repo worktree add -q --detach $wt ${SEED_BASE:-HEAD} || exit 9
cd $wt
res=""
if ! git apply --check $d/patch.diff 2>/dev/null; then res="patch-does-not-apply"; fi
if [ -z "$res" ]; then
  mkdir -p _out/m; cp $d/demo.py _out/m/demo.py
  /venv/bin/python _out/m/demo.py >/dev/null 2>&1; clean=$?
  git apply $d/patch.diff
  t=$(/venv/bin/python -m pytest -q -p no:cacheprovider --timeout=900 -x 2>&1 | tail -1)
  /venv/bin/python _out/m/demo.py >/dev/null 2>&1; mut=$?
  res="clean_demo_exit=$clean mutant_demo_exit=$mut tests: $t"
fi
echo "$name: $res"
cd /; git -C /repo worktree remove --force $wt
