#!/usr/bin/env python3-vt
"""Diff of solvers on a sample of the queries the checks discharge (run once per
encoding change; DESIGN 2).  A small exploration of a C18 template (path
conditions + the Balanced obligation), of a C09 lexer step (path conditions +
the line/column equalities) and of a pattern with multi-token hole classes (choice-
variable implications) is run with z3 5.1 (the engine); every sampled query is
exported as SMT-LIB2 and re-decided by /usr/bin/z3 (4.8.12) and cvc5.  Any
disagreement, '(error' line or unknown is reported and the exit status is 1.
"""
import json
import os
import subprocess
import sys
import tempfile

HERE = os.path.dirname(os.path.dirname(os.path.abspath(__file__)))
sys.path.insert(0, HERE)
sys.setrecursionlimit(4000)

import z3  # noqa: E402

from symx import engine as E, toklex, symparser, symlexer  # noqa: E402
from symx.symtext import SymBase  # noqa: E402
from checks import c18, c09  # noqa: E402

SAMPLES = []
LIMIT = 60


def record(eng, claim, expected):
    if len(SAMPLES) >= LIMIT:
        return
    s = z3.Solver()
    for a in eng.solver.assertions():
        s.add(a)
    s.add(z3.Not(claim))
    SAMPLES.append((s.to_smt2(), expected))


def sample_c18():
    P = symparser.load()
    alpha = toklex.full_alphabet()
    ctx = c18.CONTEXTS_Q[2][0]
    tpl = ctx.template(alpha, 3)
    Lex = toklex.make_lexer_class(tpl)

    def once():
        eng = E.cur()
        try:
            P.CParser(lexer=Lex).parse("", "f.c")
        except Exception:
            # rejected path: the path condition itself is a query (must be sat)
            record(eng, z3.BoolVal(False), "sat")
            return {"cls": "r"}
        defs, S = c18.balanced_expr(tpl)
        eng.solver.push()
        for d in defs:
            eng.solver.add(d)
        r = eng.prove(S == 0)
        record(eng, S == 0, "unsat" if r == "proved" else "sat")
        eng.solver.pop()
        return {"cls": "a"}

    eng = E.ENG = E.Engine()
    tpl.declare(eng)
    n = 0
    for _ in eng.explore(once):
        n += 1
        if n > 400:
            break


def sample_c09():
    L = symlexer.load()
    base = SymBase(3, name="c", minlen=3)
    ell, delta = z3.Int("ell"), z3.Int("delta")
    from symx.proxies import SymInt
    from symx.symtext import SymText

    def once():
        eng = E.cur()
        lx = L.CLexer(lambda *a: None, lambda: None, lambda: None, lambda n: False)
        text = SymText(base)
        lx.input(text, "F0")
        lx._lineno = SymInt(ell)
        lx._line_start = SymInt(-delta)
        tok = lx.token()
        if tok is not None and isinstance(tok.column, SymInt):
            ref = c09.reference_step(text, ell, -delta, "F0")
            if ref["kind"] == "token":
                claim = z3.And(tok.column.e == ref["col"], (tok.lineno.e if isinstance(tok.lineno, SymInt) else tok.lineno) == ref["line"])
                r = eng.prove(claim)
                record(eng, claim, "unsat" if r == "proved" else "sat")
        return {"cls": "x"}

    eng = E.ENG = E.Engine([ell >= 1, delta >= 0])
    base.declare(eng)
    n = 0
    for _ in eng.explore(once):
        n += 1
        if n > 300 or len(SAMPLES) >= LIMIT:
            break


def sample_groups():
    """a pattern with multi-token hole classes: the choice-variable implications are part of every query;
    on each accepted path also a VALID claim (the first position of a group determines whether its last one is EPS
    only through the choice variable: 'group starts with _Static_assert => second position is (') must be proved"""
    from checks import c03

    P = symparser.load()
    alpha = toklex.full_alphabet()
    ctx = [c for c, _ in c03.rare_contexts() if c.name == "rare:struct-members"][0]
    tpl = ctx.template(alpha, 0)
    Lex = toklex.make_lexer_class(tpl)
    sa, lp = alpha.idx("_Static_assert"), alpha.idx("(")
    starts = [i for i in range(tpl.n - 1) if sa in tpl.doms[i] and len(tpl.doms[i]) > 1]

    def once():
        eng = E.cur()
        try:
            P.CParser(lexer=Lex).parse("", "f.c")
        except Exception:
            record(eng, z3.BoolVal(False), "sat")
            return {"cls": "r"}
        claim = z3.And([z3.Implies(tpl.kvars[i] == sa, tpl.kvars[i + 1] == lp) for i in starts])
        r = eng.prove(claim)
        record(eng, claim, "unsat" if r == "proved" else "sat")
        return {"cls": "a"}

    eng = E.ENG = E.Engine()
    tpl.declare(eng)
    n = 0
    for _ in eng.explore(once):
        n += 1
        if n > 200 or len(SAMPLES) >= LIMIT:
            break


def run_binary(cmd, path):
    try:
        r = subprocess.run(cmd + [path], capture_output=True, text=True, timeout=60)
    except subprocess.TimeoutExpired:
        return "timeout"
    out = (r.stdout + r.stderr).strip().splitlines()
    if any("(error" in l or "error" in l.lower() for l in out):
        return "error:" + " ".join(out)[:100]
    return out[0] if out else "no-output"


def main():
    global LIMIT
    LIMIT = 30
    sample_c18()
    LIMIT = 60
    sample_c09()
    LIMIT = 90
    sample_groups()
    res = {"queries": len(SAMPLES), "disagreements": [], "by_solver": {}}
    solvers = {"z3-4.8.12": ["/usr/bin/z3", "-smt2"], "cvc5": ["cvc5", "--lang", "smt2"]}
    for name in solvers:
        res["by_solver"][name] = {"agree": 0, "other": 0}
    with tempfile.TemporaryDirectory() as d:
        for i, (smt, expected) in enumerate(SAMPLES):
            path = os.path.join(d, f"q{i}.smt2")
            with open(path, "w") as f:
                f.write("(set-logic ALL)\n" + smt)
            for name, cmd in solvers.items():
                got = run_binary(cmd, path)
                if got == expected:
                    res["by_solver"][name]["agree"] += 1
                else:
                    res["by_solver"][name]["other"] += 1
                    res["disagreements"].append({"query": i, "solver": name, "z3-5.1": expected, "got": got})
    out = os.path.join(HERE, "evidence_aux")
    os.makedirs(out, exist_ok=True)
    with open(os.path.join(out, "cross_solver.json"), "w") as f:
        json.dump(res, f, indent=1)
    print(json.dumps(res, indent=1)[:1500])
    return 1 if res["disagreements"] else 0


if __name__ == "__main__":
    sys.exit(main())
