#!/usr/bin/env python3
"""Runs a replay file with the interpreter named in its '# interpreter:' line."""
import os, sys
path = sys.argv[1]
interp = "/venv/bin/python"
with open(path) as f:
    for line in f:
        if line.startswith("# interpreter:"):
            interp = line.split(":", 1)[1].strip()
            break
os.execvp(interp, [interp, path])
