#!/usr/bin/env python3
"""Regenerates /verif/MANIFEST.json from the table below (single source of truth)."""
import json, os
HERE = os.path.dirname(os.path.dirname(os.path.abspath(__file__)))
props = [json.loads(l) for l in open(os.path.join(HERE, "properties.jsonl"))]

TRUST = ("Trusted base: CPython 3.11 executing the repository's modules loaded through the in-memory operator rewrite "
         "(validated against the untouched modules on the repository's own test inputs on every run); z3 5.1; "
         "counterexamples are replayed on the untouched package under /venv/bin/python before being reported. ")

CHECKS = {
 "C06": dict(
   level="model_checking",
   text="Bounded exhaustive symbolic execution of the real CParser over symbolic token sequences (all 134 alphabet symbols per hole, "
        "<=4 tokens at file scope and <=3 after 12 context prefixes in the quick tier; <=5/<=4 thorough): every feasible path's outcome "
        "must be FileAST, ParseError with a location prefix, or RecursionError. z3 decides path feasibility; the frontier must be empty. "
        "Token level also: degenerate patterns (every pair of 20 specifier-only / empty / truncated members, declarations, parameters, initializers and statement heads, multi-token hole classes) and the rare-construct patterns. Character level: every string of <=4 (5) code points of Unicode, and seven accepted frames with a window of <=4 (5) free characters over a literal alphabet, through the real lexer (sre model) and the real parser.",
   note=TRUST + "Bounds: sequence length, alphabet spellings; longer inputs are outside the claim.",
   technique="dynamic symbolic execution of the real parser on symbolic token streams, z3 path feasibility, exhaustive path partition within the bound",
   design="4/C06"),
 "C18": dict(
   level="model_checking",
   text="Symbolic execution of the real CParser over bracket-rich token templates (expression, declarator, statement, parameter, struct-body and file-scope "
        "contexts, <=5-6 holes quick / <=7-8 thorough) plus bracket-kind swaps inside fixed accepted programs: on every ACCEPTED path z3 must refute "
        "pc & not Balanced(k) (SMT encoding of the three-kind bracket stack automaton) and pc & exists i. k_i = '#'. unsat = holds for every sequence in the template; "
        "sat = a concrete unbalanced program the parser accepts, replayed through the real lexer.",
   note=TRUST + "Character-level part (non-token text reported) is claimed by the chr run once built; bounds: hole counts and hole alphabets listed in evidence.",
   technique="symbolic execution of the real parser + SMT obligation (bracket stack automaton unrolled in linear integer arithmetic) per accepted path",
   design="4/C18"),
 "C12": dict(
   level="model_checking",
   text="Product symbolic execution: one CParser instance parses a symbolic history (token template, <=2 holes after 4 prefixes quick / <=3 thorough; histories that "
        "fail mid-scope, declare typedefs, end in look-ahead all occur as paths) and then a symbolic input (<=3 / <=4 holes in 3 contexts); a fresh instance parses the "
        "same input on the same path. Outcomes (AST incl. coordinates / ParseError text / exception class) must coincide on every feasible path and ASTs of two calls share no node. "
        "Histories include ones that fail 3 and 5 braces deep with parameters and block-scope typedefs in the open scopes. Also: same text twice; reused CGenerator on the witness of each accepted class and on the repository's own snippets (concrete).",
   note=TRUST + "One earlier call is inductive for longer histories only as far as the state a call can leave is reachable within the history bound. Generator reuse is executed concretely on solver witnesses. Lexer reuse (CLexer.input) belongs to the character-level run.",
   technique="product (self-composition) symbolic execution of the real parser over symbolic history and input token streams, z3 path feasibility, exhaustive within the bound",
   design="4/C12"),
 "C13": dict(
   level="model_checking",
   text="The schedule is symbolic: at each token request (parsers) or visit() call (generators) a z3 Bool decides whether control passes to another instance; all schedules "
        "with <=2 (quick) / <=3 (thorough) context switches are explored as paths, for (a) the real parser on symbolic token templates with holes and clashing typedef/variable names, "
        "(b) the untouched parser with a scheduling subclass of the real CLexer on 6 concrete texts (2 and 3 parsers), (c) two CGenerators, (d) one instance parsing ANY program of the C05 statement templates / rare-construct patterns (symbolic tokens) followed by fresh instances parsing six canary programs "
        "(module-level containers of the parser module restored to load-time contents at every path start). Each instance's result must equal its result when run alone (alone = fresh interpreter / pristine module state).",
   note=TRUST + "Token-granularity cooperative schedules only; pre-emptive thread switches inside a token request and free-running threads are outside the claim. Part (b)/(c) inputs are concrete; only the schedule is symbolic.",
   technique="symbolic scheduler: interleavings as z3 Boolean decision variables over the real code run in strictly handed-off threads; exhaustive over schedules within the switch bound",
   design="4/C13"),
 "C14": dict(
   level="model_checking",
   text="All node classes of _c_ast.cfg (read by an independent reader): the real __init__/children()/__iter__/NodeVisitor.generic_visit/show() of the checked-in c_ast.py AND of a module "
        "freshly generated by _ast_gen.py are executed with every optional child's presence a z3 Bool and every child sequence None or of symbolic length 0..2 (3 thorough); the feasible paths are "
        "exactly the presence subsets x lengths (path count is checked against 2^s*(L+2)^q) and on each the reported children must be what the specification prescribes, with z3 proving that every optional child was consulted. "
        "Complementary concrete pass: visitor dispatch (incl. visitor subclass used after its base), traversal and show() line count on the repository's own C snippets.",
   note=TRUST + "`x is None` in c_ast.py is redirected to a helper; sequences longer than the bound and child classes other than the harness leaf class are outside the symbolic part.",
   technique="symbolic execution of the real node-class methods over symbolic child presence/length (z3), exhaustive case split per class, compared with the cfg specification",
   design="4/C14"),
 "C10": dict(
   level="model_checking",
   text="(i) One step of the real CLexer._match_token on a window of symbolic code points (whole of Unicode, <=7 code points quick / <=9 thorough; <=9 / <=12 over the property's reduced alphabet), "
        "in product with the reference lexical grammar reflex (ISO 9899:1999 6.4 + documented extensions) evaluated in all-end-positions mode on the same window: longest well-formed token => exactly that "
        "(kind, extent) and no error; malformed literal family / comment / illegal character => no token for this call and the error callback invoked. (ii) the real _parse_constant on spellings that are symbolic "
        "windows constrained by the reference integer/floating grammar: value unchanged, type as 6.4.4 assigns. Feasible paths partition all windows within the bound.",
   note=TRUST + "The C regex engine is replaced by an interpreter model of the sre subset in use, built from the live pattern strings and validated on every run (772 repository inputs) and on every witness. reflex is a hand transcription of the standard. Windows longer than the bound are outside the claim.",
   technique="symbolic execution of the real lexer step on symbolic code points (sre interpreter model) in product with a reference grammar; z3 path feasibility; exhaustive within the window bound",
   design="4/C10"),
 "C09": dict(
   level="model_checking",
   text="One inductive step: the real CLexer.token() is executed once from an ARBITRARY lexer state (line number l>=1 and line start -d, d>=0 as free z3 integers, arbitrary file name) on a window of symbolic code points "
        "(whole of Unicode, <=6 quick / <=8 thorough; windows starting with '#' over a directive alphabet up to 8 / 10; identifier-character windows up to 16 for keyword-vs-identifier over the live keyword table), in product with a reference reading of the skip grammar (blanks, newlines, valid #line / linemarker lines) and reflex. "
        "Proved on every path: skipped text is exactly skippable; the token is the longest well-formed token with spelling = window slice and class per reflex (TYPEID iff the callback says so, consulted exactly once; brace callbacks once); "
        "lineno and column equal the reference terms for ALL l, d (z3 proves the integer equalities, incl. re-basing by #line); position and line bookkeeping after the token; PPPRAGMA/PPPRAGMASTR protocol; file name set by #line; "
        "non-token text and malformed line directives are reported through the error callback with the offending location; progress.",
   note=TRUST + "sre interpreter model stands in for the C regex engine (validated each run). The window is the remaining input: tokens/directives longer than the bound are outside the claim. Steps are cut at the first error (as the parser's callback does); progress after errors is checked on _match_token (C10) and on directive lines.",
   technique="symbolic execution of one lexer step from a symbolic state (free integer line/offset) in product with a reference grammar; z3 proves coordinate equalities; induction on calls",
   design="4/C09"),
 "C02": dict(
   level="model_checking",
   text="Differential symbolic execution: in the eight expression contexts of the property the real parser and the reference front end refc (layered grammar of ISO 9899:1999 6.5, written from the standard) run on the same symbolic tokens "
        "(<=4 holes over a 58-symbol expression alphabet per context, <=6 over a reduced alphabet; thorough <=5-6 / <=7), plus operator-hole patterns (operands fixed, every operator position a hole over all binary/assignment/comma operators, "
        "all five tree shapes of three operators with minimal/redundant/full parenthesisation, ?: , prefix/postfix/cast/sizeof binding). On every path both accept, interp(AST) must equal refc's tree incl. Constant.type by suffix and the nested-comma trace of parentheses.",
   note=TRUST + "refc/interp are hand transcriptions of the standard and of the documented AST conventions; they are validated each run against the untouched parser on the repository's accepted test inputs (254/257 agree; the 3 others are genuine pycparser defects outside C02). Paths refc rejects (GNU extensions) carry no claim.",
   technique="product symbolic execution of the real parser and a reference grammar on shared symbolic tokens; z3 path feasibility; tree equality per path; exhaustive within the hole bound",
   design="4/C02"),
 "C05": dict(
   level="model_checking",
   text="Differential symbolic execution on function bodies: (a) free holes over the statement alphabet (every statement keyword, labels, braces, pragma tokens, _Static_assert; <=4 holes quick / <=5 thorough; <=6/7 over a reduced alphabet; switch bodies <=5/7); "
        "(b) 19 statement skeletons (dangling-else chains, do/for/switch nests, label runs, switch bodies with leading statements and nested cases) whose structure-deciding keywords are holes, each also with '#pragma s' / '#pragma' / _Pragma(\"s\") inserted at EVERY token position (about 700 templates). "
        "Where both parsers accept, interp(body) must equal refc's tree after the property's own description of switch grouping and pragma placement.",
   note=TRUST + "refc/interp validated each run on the repository's accepted inputs. A pragma-prefixed substatement is read as the block of pragmas+statement (the AST cannot distinguish it from a written block); StaticAssert+EmptyStatement in a block is read as one static assertion (pinned by the repository's tests).",
   technique="product symbolic execution of the real parser and a reference statement grammar on shared symbolic tokens; tree equality per path; exhaustive within the hole bound",
   design="4/C05"),
 "C03": dict(
   level="model_checking",
   text="Differential symbolic execution with holes spent on the declarator in every declaration context of the property (file scope with 5 base specifiers, block, for-init, parameter, struct member, typedef, cast / sizeof / _Alignof / compound-literal type names, function definition, K&R declaration list; <=4-5 holes over a 16-symbol declarator alphabet, thorough <=5-6), "
        "on specifier lists (<=3 holes over 28 specifier keywords, one and two declarators, parameters), struct / enum bodies, initializers with designators, _Alignas lists, and 16 long patterns (array of pointers to functions returning pointers to arrays with qualifiers at every level, abstract parameter forms, _Atomic(...) specifiers, bit-fields, anonymous members). "
        "refc reads each declarator inside-out (6.7.5); interp(AST) must give the same derivation chain, per-level qualifier sets, array static/qualifiers/*/bound, parameters, base specifier in source order, storage, function specifiers, alignment order, bit width, initializer.",
   note=TRUST + "Qualifiers of one level are compared as sets (6.7.3p4). Declarations refc rejects (implicit int, empty struct/initializer, GNU extensions) carry no claim.",
   technique="product symbolic execution of the real parser and a reference declaration grammar (inside-out declarator reading) on shared symbolic tokens; tree equality per path",
   design="4/C03"),
 "C01": dict(
   level="model_checking",
   text="Product symbolic execution: on every path the real parser and refc (ISO 9899:1999 Annex A.2 with the typedef-name rule and the syntactic constraints -pedantic-errors enforces, plus the supported C11 productions) run on the same symbolic tokens; "
        "assertion: refc accepts => the real parser returns a FileAST. Contexts: file scope, function body, initializer, array bounds, struct body, parameter list, for header with <=3 holes over the FULL 134-symbol alphabet (thorough <=4), 2-3 full-alphabet holes right after each C99/C11 construct whose neighbours matter "
        "(compound literal, sizeof, designator, _Atomic, _Alignas(, enumerator, [static, label position, case), and all contexts and patterns of the C02/C03/C05 checks (reduced alphabets, more holes), plus 11 rare-construct patterns whose holes range over multi-token alternatives tied by a z3 choice variable "
        "(struct member kinds incl. static assertions / anonymous members / unnamed bit-fields, adjacent string-literal pieces of every prefix, designator chains, parameter forms x function specifiers, array-parameter bounds, old-style definitions).",
   note=TRUST + "refc is the oracle of validity (hand transcription of the standard, validated each run on the repository's accepted inputs); what refc rejects or does not model carries no claim. Longer programs than the hole bounds are outside the claim.",
   technique="product symbolic execution of the real parser and a reference grammar on shared symbolic tokens; implication refc-accepts => parser-accepts checked on every feasible path",
   design="4/C01"),
 "C04": dict(
   level="model_checking",
   text="symx-tok with IDENT symbols: every identifier token is classified by the REAL type_lookup_func when the real parser requests it and scopes are pushed/popped by the REAL brace callbacks at lex time, so look-ahead/registration timing is executed, not modelled. "
        "refc parses the same tokens with its own ISO 6.2.1 scope table. Templates: declaration histories of two names with <=4 free holes (thorough <=5) at file scope, in a function body, in nested blocks, in parameter lists, across function boundaries, each followed by the property's five probe statements, "
        "plus 54 history patterns (object/parameter/enumerator/tag/member/label/for-init declarations, redeclaration inside one declaration, sibling blocks, struct bodies, block-scope function declarators, which parameter list belongs to a definition, old-style declaration lists, prototype scope, struct/union/enum bodies lexed ahead of the parser). Where refc accepts, the real parser must accept and produce the same tree; differing outcomes are attributed to the first identifier classified differently.",
   note=TRUST + "2 names, nesting depth <=3. Two genuine defects are recorded as known findings (for-statement declaration scope; a parameter of a function definition not hiding a typedef within its own parameter list, pinned by an upstream test); for prototype-only parameter lists the property exempts parameter names and no claim is made; see known_findings.json.",
   technique="symbolic execution of the real parser with its real scope callbacks in product with a reference scope model (ISO 6.2.1); tree equality and classification equality per path",
   design="4/C04"),
 "C07": dict(
   level="model_checking",
   text="Classes of programs = feasible accepted paths of the real parser over all templates of the C02/C03/C05 checks (one hole less in the quick tier), further split by running the REAL CGenerator on the symbolic AST inside the engine for both reduce_parentheses settings "
        "(operator spellings it looks up in its precedence table, names it concatenates, node classes fork the path). For each class the solver's witness is rendered and the untouched package does parse -> generate -> parse -> generate concretely through the real lexer: "
        "second AST == first in every slot but coord, second text == first text, no generator exception. Extra patterns: comma/assignment/statement expressions in every constant-expression, condition and for-header position, _Atomic(T) type names, "
        "statement heads x static-assertion/declaration forms, declarations whose declarator hides the typedef of the shared specifiers (known finding), mixed string-literal pieces.",
   note=TRUST + "Weaker than a symbolic re-parse: the solver decides which classes exist and which spellings the generator can tell apart; equality on each class's witness is ordinary execution. The repository's corpus is beyond the bounds.",
   technique="symbolic execution of the real parser and the real generator to partition programs into classes (z3), one concrete round trip per class on the untouched package",
   design="4/C07"),
 "C11": dict(
   level="model_checking",
   text="symx-tok with SYMBOLIC coordinates: token i carries free z3 integers line_i, col_i and the lexer's file name is a per-token tag F_i (a linemarker between any two tokens). The real parser runs over the templates of C02/C03/C05 (one hole less in quick) plus multi-parenthesis patterns; "
        "on every accepted path, for every AST node: (1) coordinate present for declarations, statements, identifiers, constants, operators; (2) its components are (F_j, line_j, col_j) of ONE token j - z3 proves the integer equalities for all layouts and the file tag must be token j's, not a looked-ahead token's; "
        "(3) ID / Constant / declared name / enumerator / label: j is the token spelling it; (4) three span rules over coordinate tokens (not after all parts, parts not before the parent for expressions/statements, list items in source order). Rejecting paths: the message's file:line:col is one token's triple. "
        "If the parser's control flow ever consults a coordinate, the same tokens are re-parsed under the canonical layout in the same path and must give the same result. One file name may be the empty string (symbolic truthiness of file tags). "
        "Errors raised by the lexer: a stray character at every position of seven accepted programs through the real lexer (sre model) and the real parser - once the lexer has reported it, the ParseError that escapes names the character's own file:line:column.",
   note=TRUST + "Span containment is checked through the three rules of symx/coordrules.py (exact token spans would need a second parser recording them). Exact token positions and illegal-character positions are C09's obligations. Replays lay the witness out with one linemarker per token realising the solver's line/column values.",
   technique="symbolic execution of the real parser with symbolic per-token line/column/file; z3 proves coordinate equalities for all layouts; exhaustive over template paths",
   design="4/C11"),
 "C15": dict(
   level="other",
   text="Weak, stated as such: pickle / deepcopy / repr / eval are CPython built-ins that cannot be executed symbolically. The solver enumerates AST SHAPES (accepted path classes of the real parser over the C02/C03/C05 templates and a literal-rich context: every node class, empty lists, absent children, node-valued attributes, "
        "string/char constants with quotes, backslashes, non-ASCII); one witness per shape is parsed by the untouched package and pushed through eval(repr), pickle protocols 2..HIGHEST and deepcopy: identical structure (coordinates too), no shared nodes, same generated text, original unchanged.",
   note=TRUST + "Universality over string contents is not claimed; equality per shape is ordinary execution.",
   technique="symbolic execution of the real parser to enumerate AST shapes (z3 path feasibility); concrete repr/pickle/deepcopy round trips per shape",
   design="4/C15"),
 "C17": dict(
   level="model_checking",
   text="Composition of three lemmas, each by symbolic execution of the real code: (1) layout lemma - C09's one-step harness: from an arbitrary lexer state, on a window W.R with W any run of blanks/newlines/valid line directives, token() returns the reference token at the start of R (class and spelling independent of W and of the line/offset state); "
        "(2) coordinate non-interference - with per-token line/col/file as free symbols, any path on which the parser's control flow consults a coordinate is re-parsed under the canonical layout in the same path and must agree; no coordinate in a non-coord slot or in CGenerator's output; "
        "(3) parenthesis lemma - every operator-hole pattern of C02 parsed together with each variant wrapping one operand (or an already parenthesised group) in redundant parentheses, hole variables shared: equal ASTs coordinates aside.",
   note=TRUST + "Bounds are those of C09 (window) and of the C02/C03/C05 templates. That look-ahead timing vs typedef classification is layout-independent (tokens are pulled on demand whatever separates them) is argued, not checked. Pragma lines are tokens and are not re-laid out.",
   technique="composition of symbolic-execution lemmas: one-step lexer induction, symbolic coordinates with in-path re-parse, product execution of parenthesised variants with shared hole variables",
   design="4/C17"),
}

NA = {
 "C08": "oracle is an external C compiler's code generator on type-correct programs; cannot be encoded for a solver (DESIGN.md C08)",
 "C16": "asymptotic growth of work along unbounded input families; bounded symbolic exploration cannot separate linear from exponential (DESIGN.md C16)",
 "C19": "sweep of header files through an external cpp process and the file system; nothing for a solver to execute (DESIGN.md C19)",
}
NOT_YET = "check not built yet in this round (planned, see DESIGN.md)"

m = {
 "version": 1,
 "setup_cmd": "python3-vt -c \"import z3; print('z3', z3.get_version_string())\" && /venv/bin/python -c \"import sys; print(sys.version)\"",
 "hooks": {"guard": "PYCPARSER_VERIF", "enable": "no hooks are needed: checks load /repo/pycparser/*.py through an in-memory AST rewrite on every run (VERIF_REPO overrides the path); nothing is written to /repo",
           "baseline_off_cmd": "cd /repo && /venv/bin/python -m pytest -q -p no:cacheprovider --timeout=900", "source_commits": [], "add_only": True},
 "engines": [{"name": "symx", "path": "symx/", "serves_properties": sorted(CHECKS),
              "kind_free_text": "custom dynamic symbolic executor (DFS with replay) over z3: real pycparser code runs on proxy tokens/characters, every branch on a symbolic value is a z3 query, feasible paths partition the bounded input space"}],
 "checks": [],
 "notes": "All checks: python3-vt check.py <ID> <tier>. Exit 0 held / 1 VIOLATION (replay written) / 3 harness error (no verdict). 'fix:' commits in /repo and their findings are listed in known_findings.json.",
 "not_applicable": [],
}
for p in props:
    pid = p["id"]
    if pid in CHECKS:
        c = CHECKS[pid]
        m["checks"].append({
            "property_id": pid,
            "quick_cmd": f"python3-vt check.py {pid} quick",
            "thorough_cmd": f"python3-vt check.py {pid} thorough",
            "evidence_file": f"/verif/evidence/{pid}.json",
            "replay_cmd_template": "python3 tools/replay.py {path}",
            "engine": "symx",
            "level_claimed": {"category": c["level"], "text": c["text"], "design_ref": c["design"]},
            "level_note": c["note"],
            "technique": c["technique"],
        })
    else:
        m["not_applicable"].append({"property_id": pid, "reason": NA.get(pid, NOT_YET)})
json.dump(m, open(os.path.join(HERE, "MANIFEST.json"), "w"), indent=1)
print("checks:", [c["property_id"] for c in m["checks"]])
