#!/usr/bin/env python3
"""Regenerates /verif/MANIFEST.json from the table below (single source of truth)."""
import json, os
HERE = os.path.dirname(os.path.dirname(os.path.abspath(__file__)))
props = [json.loads(l) for l in open(os.path.join(HERE, "properties.jsonl"))]

TRUST = ("Trusted base: CPython 3.11 executing the repository's modules loaded through the in-memory operator rewrite "
         "(validated against the untouched modules on the repository's own test inputs on every run); z3 5.1; "
         "counterexamples are replayed on the untouched package under /venv/bin/python before being reported. ")

CHECKS = {
 "C06": dict(
   level="model_checking",
   text="Bounded exhaustive symbolic execution of the real CParser over symbolic token sequences (all 132 alphabet symbols per hole, "
        "<=4 tokens at file scope and <=3 after 12 context prefixes in the quick tier; <=5/<=4 thorough): every feasible path's outcome "
        "must be FileAST, ParseError with a location prefix, or RecursionError. z3 decides path feasibility; the frontier must be empty.",
   note=TRUST + "Bounds: sequence length, alphabet spellings; longer inputs are outside the claim.",
   technique="dynamic symbolic execution of the real parser on symbolic token streams, z3 path feasibility, exhaustive path partition within the bound",
   design="4/C06"),
 "C18": dict(
   level="model_checking",
   text="Symbolic execution of the real CParser over bracket-rich token templates (expression, declarator, statement, parameter, struct-body and file-scope "
        "contexts, <=5-6 holes quick / <=7-8 thorough) plus bracket-kind swaps inside fixed accepted programs: on every ACCEPTED path z3 must refute "
        "pc & not Balanced(k) (SMT encoding of the three-kind bracket stack automaton) and pc & exists i. k_i = '#'. unsat = holds for every sequence in the template; "
        "sat = a concrete unbalanced program the parser accepts, replayed through the real lexer.",
   note=TRUST + "Character-level part (non-token text reported) is claimed by the chr run once built; bounds: hole counts and hole alphabets listed in evidence.",
   technique="symbolic execution of the real parser + SMT obligation (bracket stack automaton unrolled in linear integer arithmetic) per accepted path",
   design="4/C18"),
 "C12": dict(
   level="model_checking",
   text="Product symbolic execution: one CParser instance parses a symbolic history (token template, <=2 holes after 4 prefixes quick / <=3 thorough; histories that "
        "fail mid-scope, declare typedefs, end in look-ahead all occur as paths) and then a symbolic input (<=3 / <=4 holes in 3 contexts); a fresh instance parses the "
        "same input on the same path. Outcomes (AST incl. coordinates / ParseError text / exception class) must coincide on every feasible path and ASTs of two calls share no node. "
        "Also: same text twice; reused CGenerator on the witness of each accepted class.",
   note=TRUST + "One earlier call is inductive for longer histories only as far as the state a call can leave is reachable within the history bound. Generator reuse is executed concretely on solver witnesses. Lexer reuse (CLexer.input) belongs to the character-level run.",
   technique="product (self-composition) symbolic execution of the real parser over symbolic history and input token streams, z3 path feasibility, exhaustive within the bound",
   design="4/C12"),
 "C13": dict(
   level="model_checking",
   text="The schedule is symbolic: at each token request (parsers) or visit() call (generators) a z3 Bool decides whether control passes to another instance; all schedules "
        "with <=2 (quick) / <=3 (thorough) context switches are explored as paths, for (a) the real parser on symbolic token templates with holes and clashing typedef/variable names, "
        "(b) the untouched parser with a scheduling subclass of the real CLexer on 6 concrete texts (2 and 3 parsers), (c) two CGenerators. Each instance's result must equal its result when run alone.",
   note=TRUST + "Token-granularity cooperative schedules only; pre-emptive thread switches inside a token request and free-running threads are outside the claim. Part (b)/(c) inputs are concrete; only the schedule is symbolic.",
   technique="symbolic scheduler: interleavings as z3 Boolean decision variables over the real code run in strictly handed-off threads; exhaustive over schedules within the switch bound",
   design="4/C13"),
}

NA = {
 "C08": "oracle is an external C compiler's code generator on type-correct programs; cannot be encoded for a solver (DESIGN.md C08)",
 "C16": "asymptotic growth of work along unbounded input families; bounded symbolic exploration cannot separate linear from exponential (DESIGN.md C16)",
 "C19": "sweep of header files through an external cpp process and the file system; nothing for a solver to execute (DESIGN.md C19)",
}
NOT_YET = "check not built yet in this round (planned, see DESIGN.md)"

m = {
 "version": 1,
 "setup_cmd": "python3-vt -c \"import z3; print('z3', z3.get_version_string())\" && /venv/bin/python -c \"import sys; print(sys.version)\"",
 "hooks": {"guard": "PYCPARSER_VERIF", "enable": "no hooks are needed: checks load /repo/pycparser/*.py through an in-memory AST rewrite on every run (VERIF_REPO overrides the path); nothing is written to /repo",
           "baseline_off_cmd": "cd /repo && /venv/bin/python -m pytest -q -p no:cacheprovider --timeout=900", "source_commits": [], "add_only": True},
 "engines": [{"name": "symx", "path": "symx/", "serves_properties": sorted(CHECKS),
              "kind_free_text": "custom dynamic symbolic executor (DFS with replay) over z3: real pycparser code runs on proxy tokens/characters, every branch on a symbolic value is a z3 query, feasible paths partition the bounded input space"}],
 "checks": [],
 "notes": "All checks: python3-vt check.py <ID> <tier>. Exit 0 held / 1 VIOLATION (replay written) / 3 harness error (no verdict). 'fix:' commits in /repo and their findings are listed in known_findings.json.",
 "not_applicable": [],
}
for p in props:
    pid = p["id"]
    if pid in CHECKS:
        c = CHECKS[pid]
        m["checks"].append({
            "property_id": pid,
            "quick_cmd": f"python3-vt check.py {pid} quick",
            "thorough_cmd": f"python3-vt check.py {pid} thorough",
            "evidence_file": f"/verif/evidence/{pid}.json",
            "replay_cmd_template": "/venv/bin/python {path}",
            "engine": "symx",
            "level_claimed": {"category": c["level"], "text": c["text"], "design_ref": c["design"]},
            "level_note": c["note"],
            "technique": c["technique"],
        })
    else:
        m["not_applicable"].append({"property_id": pid, "reason": NA.get(pid, NOT_YET)})
json.dump(m, open(os.path.join(HERE, "MANIFEST.json"), "w"), indent=1)
print("checks:", [c["property_id"] for c in m["checks"]])
