"""C10 - literals are accepted iff well-formed and classified by their spelling.

(i) symx-chr, one step of the real CLexer._match_token on a window of symbolic
    code points (whole of Unicode, symbolic length) from position 0, product
    with the reference lexical grammar `reflex` evaluated on the same window:
      - reference says "longest well-formed token of kind K ends at e"
            => implementation returns exactly (K, window[0:e]) and reports no error;
      - reference says "malformed literal family / illegal character / comment"
            => implementation returns no token for this call and calls the error callback;
    every disagreement is a solver witness (a concrete string), replayed on the
    untouched lexer.
(ii) the real CParser._parse_constant on tokens whose spelling is a symbolic
    window constrained by the reference integer / floating grammar: Constant.value
    is the spelling unchanged and Constant.type the type 6.4.4 assigns to the suffix.
"""
from __future__ import annotations

import z3

from symx import engine as E
from symx import checklib, loader, symlexer, symparser, reflex, toklex
from symx.engine import IntervalSet
from symx.symtext import SymBase, SymText, iset_of_chars
from symx.proxies import SymInt

PID = "C10"
BOUNDS = {"quick": {"window": 7, "window_reduced": 9, "const": 7}, "thorough": {"window": 9, "window_reduced": 12, "const": 9}}
# reduced alphabet of the property's quantifier: digits, hex letters, suffix letters, '.', exponent/sign, quotes, backslash, prefix letters
REDUCED = "0123456789abcdefABCDEFxXuUlLpP.+-'\"\\8 \n" + "z_"


def make_job(Lmod, base, name, first_not_ws=True):
    NOT_WS = iset_of_chars(" \t\n#").complement()

    def make_engine():
        eng = E.Engine()
        base.declare(eng)
        if first_not_ws and base.maxlen:
            d = eng.base_dom[(base.name, 0)] & NOT_WS
            eng.base_dom[(base.name, 0)] = d
            eng.solver.add(eng.iv_expr((base.name, 0), base.chars[0], d))
        return eng

    def once():
        eng = E.cur()
        errs = []
        lx = Lmod.CLexer(lambda m, l, c: errs.append((m, l, c)), lambda: None, lambda: None, lambda n: False)
        text = SymText(base)
        lx.input(text, "f.c")
        tok = lx._match_token()
        newpos = lx._pos
        ref = reflex.verdict(text, 0)
        if tok is not None:
            a, b = tok.value.span() if isinstance(tok.value, SymText) else (0, len(tok.value))
            impl = ("token", str(tok.type), b, a)
        else:
            impl = ("error", len(errs), newpos)
        bad = None
        if ref[0] == "token":
            if impl[0] != "token":
                bad = f"well-formed {ref[1]} of length {ref[2]} reported as error ({errs[0][0] if errs else 'no message'})"
            elif impl[1] != ref[1] or impl[2] != ref[2] or impl[3] != 0 or newpos != ref[2]:
                bad = f"expected token {ref[1]} of length {ref[2]}, lexer returned {impl[1]} of length {impl[2]}"
            elif errs:
                bad = f"token {impl[1]} returned but an error was also reported"
        elif ref[0] == "error":
            if impl[0] == "token":
                bad = f"malformed input ({ref[1]}) returned as token {impl[1]} of length {impl[2]}"
            elif not errs:
                bad = f"malformed input ({ref[1]}) skipped without calling the error callback"
            elif newpos <= 0:
                bad = "no progress after an error"
        cls = ref[0] + ":" + (ref[1] if ref[0] != "eof" else "")
        rec = {"cls": cls, "witness": {cls.split(":")[0]: True, ("kind-" + ref[1]) if ref[0] == "token" else "err": True}}
        if bad:
            m = eng.model()
            s = base.witness(m)
            rec["viol"] = {"sig": "lexer-vs-grammar:" + bad.split(" of length")[0].split("(")[0].strip()[:70], "what": bad, "text": s}
            rec["cls"] += "-DIFF"
        elif ref[0] == "token" and ref[1] in reflex.LITERAL_KINDS:
            m = eng.model()
            rec["sample"] = {"window": base.witness(m), "token": ref[1], "length": ref[2]}
        return rec

    return E.Job(name, make_engine, once, split=("input", 2), max_samples=4)


def replay_lex(rp, v):
    """first-step behaviour of the untouched lexer on the witness vs the concrete reference"""
    r = rp.ask(op="lex", text=v["text"], max=1)
    v["replay_outcome"] = {"tokens": r.get("tokens"), "errors": r.get("errors")}
    # concrete reference verdict
    old = E.ENG
    E.ENG = symlexer.ConcreteEngine()
    try:
        ref = reflex.verdict(symlexer.concrete_symtext(v["text"], name="w"), 0)
    finally:
        E.ENG = old
    toks, errs = r.get("tokens") or [], r.get("errors") or []
    if ref[0] == "token":
        if not toks:
            return True
        t = toks[0]
        first_err_before = bool(errs) and (errs[0][1], errs[0][2]) < (t[2], t[3])
        return first_err_before or t[0] != ref[1] or len(t[1]) != ref[2] or t[3] != 1
    if ref[0] == "error":
        if not errs:
            return True
        if toks and (toks[0][2], toks[0][3]) < (errs[0][1], errs[0][2]):
            return True
        return False
    return False


def replay_body_lex(v):
    return (
        "from pycparser.c_lexer import CLexer\n"
        f"text = {v['text']!r}\nerrs = []\n"
        "lx = CLexer(lambda m,l,c: errs.append((m,l,c)), lambda: None, lambda: None, lambda n: False)\n"
        "lx.input(text)\nt = lx.token()\n"
        f"print('input', repr(text)); print('first token:', t); print('errors:', errs)\n"
        f"print({v['what']!r})\nsys.exit(1)\n"
    )


# ---------------------------------------------------------------- (ii) constant typing
def const_job(P, kind, L):
    c_lexer = loader.native("c_lexer")
    base = SymBase(L, name="s", minlen=1)
    is_int = kind.startswith("INT")
    refpat = reflex.pat(kind)

    def make_engine():
        eng = E.Engine()
        base.declare(eng)
        return eng

    class OneTokLexer:
        def __init__(self, error_func, on_lbrace_func, on_rbrace_func, type_lookup_func):
            self.filename = "f.c"
            self.toks = []

        def input(self, text, filename=""):
            self.filename = filename
            self.i = 0

        def token(self):
            if self.i < len(self.toks):
                t = self.toks[self.i]
                self.i += 1
                return t
            return None

    def once():
        eng = E.cur()
        text = SymText(base)
        if refpat.fullmatch(text) is None:
            return {"cls": "not-a-" + kind}
        parser = P.CParser(lexer=OneTokLexer)
        parser.clex.toks = [c_lexer.Token(kind, text, 1, 1)]
        parser.clex.input("", "f.c")
        parser._tokens = P._TokenStream(parser.clex)
        try:
            node = parser._parse_constant()
        except E.HarnessError:
            raise
        except Exception as e:
            m = eng.model()
            return {"cls": "exception", "viol": {"sig": "constant:" + type(e).__name__, "what": f"{type(e).__name__} from _parse_constant: {e}", "text": base.witness(m), "kind": kind}}
        exp = reflex.int_type(text) if is_int else reflex.float_type(text)
        bad = None
        if node.value is not text and not (isinstance(node.value, SymText) and node.value.span() == text.span()):
            bad = "Constant.value is not the spelling"
        elif node.type != exp:
            bad = f"Constant.type = {node.type!r}, the spelling implies {exp!r}"
        rec = {"cls": "typed:" + str(exp), "witness": {"typed": True}}
        if bad:
            m = eng.model()
            rec["viol"] = {"sig": "constant-type:" + kind, "what": bad, "text": base.witness(m), "kind": kind, "expected": exp}
        else:
            rec["sample"] = {"spelling": base.witness(eng.model()), "type": exp}
        return rec

    return E.Job("const:" + kind, make_engine, once, split=("input", 2), max_samples=2)


def replay_const(rp, v):
    r = rp.ask(op="exec", code=(
        "from pycparser.c_parser import CParser\n"
        f"try:\n    a = CParser().parse('int x = ' + {v['text']!r} + ';')\n    c = a.ext[0].init\n    RESULT = {{'type': getattr(c, 'type', None), 'value': getattr(c, 'value', None), 'cls': type(c).__name__}}\n"
        "except Exception as e:\n    RESULT = {'exc': type(e).__name__, 'msg': str(e)}\n"))
    v["replay_outcome"] = r
    if r is None:
        return False
    if "exc" in r:
        return r["exc"] != "ParseError" and v["sig"].startswith("constant:")
    return r.get("cls") == "Constant" and (r.get("type") != v.get("expected") or r.get("value") != v["text"])


def main():
    report = checklib.Report(PID)
    findings = checklib.Findings(PID)
    rp = checklib.Replayer()
    b = BOUNDS[checklib.tier()]
    report.assumptions += [
        "the C regex engine is replaced by an interpreter model of the sre subset used by c_lexer.py, built from the live pattern strings; validated against the untouched lexer on the repository's test inputs on every run and on every witness",
        "reflex: reference lexical grammar transcribed from ISO 9899:1999 6.4 plus pycparser's documented extensions (binary constants, $ in identifiers, u8/u/U prefixes, lenient escapes, decimal escapes)",
        "one step from position 0 of a window; inputs longer than the window are outside the claim",
    ]
    try:
        Lmod = symlexer.load()
        nval = symlexer.validate_lexer_translation(Lmod, checklib.repo_test_snippets())
        report.notes.append(f"lexer translator validation: {nval} repository inputs tokenised identically by the sre model and the untouched lexer")
        report.functions |= {"pycparser/c_lexer.py:CLexer._match_token", "pycparser/c_lexer.py:CLexer._make_token", "pycparser/c_lexer.py:CLexer._error",
                             "pycparser/c_lexer.py:_regex_master (all rules, via sre model)", "pycparser/c_lexer.py:_fixed_tokens_by_first", "pycparser/c_parser.py:CParser._parse_constant"}
        report.bounds.update({"window_full_unicode": b["window"], "window_reduced_alphabet": b["window_reduced"], "reduced_alphabet": REDUCED, "constant_spelling_length": b["const"]})
        cands = {}
        jobs = []
        for n in range(1, b["window"] + 1):
            jobs.append(make_job(Lmod, SymBase(n, name="c", minlen=n), f"window/{n}/unicode"))
        red = IntervalSet([(ord(ch), ord(ch)) for ch in REDUCED])
        for n in range(b["window"] + 1, b["window_reduced"] + 1):
            jobs.append(make_job(Lmod, SymBase(n, name="c", minlen=n, alphabet=red), f"window/{n}/reduced"))
        for job in jobs:
            res = E.run_job(job, workers=None if int(job.name.split("/")[1]) >= 4 else 1)
            report.add_run(job.name, res)
            for v in res.violations:
                cands.setdefault(v["sig"], []).append(v)
        P = symparser.load()
        for kind in ("INT_CONST_DEC", "INT_CONST_OCT", "INT_CONST_HEX", "INT_CONST_BIN", "FLOAT_CONST", "HEX_FLOAT_CONST"):
            job = const_job(P, kind, b["const"])
            res = E.run_job(job, workers=1 if b["const"] <= 5 else None)
            report.add_run(job.name, res)
            for v in res.violations:
                cands.setdefault(v["sig"], []).append(v)
        for sig, vs in sorted(cands.items()):
            vs.sort(key=lambda v: (len(v["text"]), v["text"]))
            good = None
            for v in vs[:5]:
                report.replayed += 1
                ok = replay_const(rp, v) if sig.startswith("constant") else replay_lex(rp, v)
                if ok:
                    good = v
                    break
            if good is None:
                report.unreproduced.append({"sig": sig, "text": vs[0]["text"], "what": vs[0]["what"], "outcome": vs[0].get("replay_outcome")})
                continue
            what = f"{good['what']} on input {good['text']!r}"
            kf = findings.match(sig)
            if kf:
                report.known_hits[sig] = kf["what"]
                continue
            if sig.startswith("constant"):
                body = (f"from pycparser.c_parser import CParser\nc = CParser().parse('int x = ' + {good['text']!r} + ';').ext[0].init\n"
                        f"print(c.type, c.value)\nsys.exit(1 if (c.type != {good.get('expected')!r} or c.value != {good['text']!r}) else 0)\n")
            else:
                body = replay_body_lex(good)
            report.violations.append({"sig": sig, "what": what, "replay": checklib.write_replay(PID, what, body)})
    finally:
        rp.close()
    return report.finish(findings, required_witnesses=["token", "error", "kind-FLOAT_CONST", "kind-STRING_LITERAL", "kind-INT_CONST_CHAR", "typed"])


if __name__ == "__main__":
    checklib.run_main(main)
