"""C13 - separate parser/generator instances never influence each other.

The schedule is symbolic: at every switch point (a token request of a parser, a
visit() call of a generator) a z3 Bool decides whether control passes to
another instance; each feasible assignment is a path, so every interleaving at
switch-point granularity with at most `max_switches` context switches is
explored.  On every path each instance's result must equal the result of the
same instance run alone on the same (symbolic) input.

 (a) rewritten parser + symbolic token templates with holes (IDENT symbols are
     classified by each parser's own real type_lookup_func), 2 parsers;
 (b) the untouched parser with a scheduling subclass of the real CLexer on
     concrete texts with clashing names / pragmas / #line, 2 and 3 parsers;
 (c) two CGenerator subclasses yielding at every visit().
Free-running pre-emptive threads are outside the claim (the solver has no
handle on the interpreter's scheduler).
"""
from __future__ import annotations

import io

from symx import engine as E
from symx import toklex, symparser, checklib, tokharness, loader
from symx.sched import Scheduler

PID = "C13"

HOLE = ["T", "x", "*", ";", "int", "typedef", "(", ")", "{", "}"]
PAIRS_TOK = [
    # (tokens A, tokens B); None = hole
    ("typedef int T ; void x ( void ) { T * y ; }", "int T ; void x ( void ) { T * y ; }"),
    ("typedef int T ; int x = sizeof ( T ) ;", "int T ; int x = sizeof ( T ) ;"),
    ("typedef int T ; void x ( void ) { { T ( y ) ; } }", "void x ( int T ) { { T ( y ) ; } }"),
    ("typedef int T ; void x ( void ) { ? }", "int T ; void x ( void ) { ? }"),
    ("typedef int x ; ? y ;", "int x ; { ?"),
]
TEXTS = [
    # concrete programs for the real-lexer runs: clashing names, pragmas with arguments, #line, errors
    ("typedef int T;\nvoid f(void) { T * x; { T (y); } }\n", "a.c"),
    ("int T, x, y;\nvoid g(void) { T * x; { T (y); } }\n", "b.c"),
    ("#pragma pack(1)\nstruct s { int a; };\n#pragma omp parallel for\nint z;\n", "c.c"),
    ('# 10 "inc.h"\nint q;\n# 20 "other.h" 2\nint r = sizeof(T);\n', "d.c"),
    ("typedef char T; T v[3] = { (T)1, 2 };\n#pragma once\nvoid h(T p) { T *q = &p; }\n", "e.c"),
    ("void k(void) { typedef int T; T a; { int T; T = 1; } T b; } T c;\n", "f.c"),
    # the same bare line directives (no file name) in inputs with different file names
    ("int p1;\n#line 20\nint p2;\n# 30\nint p3;\n", "g.c"),
    ("#line 20\nchar q1;\n# 30\nchar q2;\n", "h.h"),
    # linemarkers that change the file INSIDE constructs (an included enumerator / member list): nodes are completed
    # after look-ahead has crossed the marker, so their file name comes from per-token bookkeeping
    ('enum color {\n# 1 "colors.inc"\n RED,\n GREEN\n# 4 "i.c"\n};\nstruct s {\n# 1 "members.inc"\n int m;\n# 9 "i.c"\n} v = {\n# 1 "init.inc"\n 1\n# 12 "i.c"\n};\n', "i.c"),
]
GEN_TEXTS = [
    "void f(int a) { if (a) { while (a) { a--; } } else { switch (a) { case 1: { break; } default: ; } } }",
    "struct s { int a; struct { int b; } c; }; enum e { A, B = 2 }; int g(void) { for (;;) { return 1; } }",
    "int h(void) { do { int x; { x = 1; } } while (0); lab: return 2; }",
]
BOUNDS = {"quick": {"tok_switches": 2, "real_switches": 2, "real3_switches": 2, "gen_switches": 2},
          "thorough": {"tok_switches": 3, "real_switches": 3, "real3_switches": 2, "gen_switches": 3}}


def show(ast):
    b = io.StringIO()
    ast.show(buf=b, attrnames=True, nodenames=True, showcoord=True)
    return b.getvalue()


def parse_outcome(P, make_parser, text, filename):
    try:
        ast = make_parser().parse(text, filename)
    except P.ParseError as e:
        return ("ParseError", str(e))
    except RecursionError:
        return ("RecursionError", "")
    except (E.HarnessError, E.Abort):
        raise
    except Exception as e:
        return ("exc", type(e).__name__ + ":" + str(e)[:60])
    return ("ast", ast)


def same_outcome(a, b, concrete):
    if a[0] != b[0]:
        return f"{a[0]} vs {b[0]} ({str(a[1])[:60]!r} vs {str(b[1])[:60]!r})"
    if a[0] == "ast":
        if concrete:
            return None if show(a[1]) == show(b[1]) else "different AST"
        return tokharness.ast_diff(a[1], b[1], coords=True)
    return None if a[1] == b[1] else f"{a[0]}: {a[1]!r} vs {b[1]!r}"


# ---------------------------------------------------------------- (a) symbolic tokens
def tok_job(P, alpha, a_src, b_src, max_sw, pristine=None):
    def mk(src, var):
        pos = [HOLE if w == "?" else w for w in src.split()]
        return toklex.Template(alpha, pos, var=var)

    tA, tB = mk(a_src, "k"), mk(b_src, "m")

    def make_engine():
        eng = E.Engine()
        tA.declare(eng)
        tB.declare(eng)
        return eng

    def lexer_class(tpl, yp_holder):
        base = toklex.make_lexer_class(tpl)

        class SchedLexer(base):
            def token(self):
                yp = yp_holder.get("yp")
                if yp is not None:
                    yp()
                return super().token()

        return SchedLexer

    def once():
        eng = E.cur()
        sched = Scheduler(max_sw)
        holders = [{}, {}]
        classes = [lexer_class(tA, holders[0]), lexer_class(tB, holders[1])]
        tpls = [tA, tB]

        def task(i):
            def fn(yp):
                holders[i]["yp"] = yp
                return parse_outcome(P, lambda: P.CParser(lexer=classes[i]), tpls[i], f"{'ab'[i]}.c")

            return fn

        if pristine is not None:
            restore(pristine["snap"])  # module-level state as at load time: paths are independent
        res = sched.run([task(0), task(1)])
        for r, exc in res:
            if exc is not None:
                raise exc if isinstance(exc, (E.HarnessError,)) else E.HarnessError(f"task raised {exc!r}")
        holders[0].clear()
        holders[1].clear()
        alone = []
        for i in (0, 1):
            if pristine is not None:
                restore(pristine["snap"])  # "alone" = nothing else has been parsed by any instance
            alone.append(parse_outcome(P, lambda i=i: P.CParser(lexer=classes[i]), tpls[i], f"{'ab'[i]}.c"))
        rec = {"cls": f"{res[0][0][0]}|{res[1][0][0]}|sw{sched.switches}", "witness": {f"switches-{sched.switches}": True}}
        for i in (0, 1):
            d = same_outcome(res[i][0], alone[i], concrete=False)
            if d:
                m = eng.model()
                rec["viol"] = {
                    "sig": "interference-token-level",
                    "diff": f"parser {'AB'[i]}: interleaved result differs from alone: {d}",
                    "A": tA.witness(m),
                    "B": tB.witness(m),
                    "trace": list(sched.trace),
                    "kind": "tok",
                }
                rec["cls"] += "-DIFF"
                break
        return rec

    return E.Job(f"tok:{a_src[:30]}||{b_src[:30]}", make_engine, once, split=("depth", 8), max_samples=2), (tA, tB)


# ---------------------------------------------------------------- (d) symbolic first instance, canary second instances
CANARIES = [
    "typedef int T; void f(void) { again: T v; v = 1; goto again; }",
    "typedef int T; struct pixel { T r, g, b; int T; }; int f(int w, int T); typedef int T;",
    "typedef char T; T v[3] = { (T)1, 2 }; void h(T p) { T *q = &p; { int T; T = 1; } first: T: q = 0; }",
    "int a[3] = { [1] = 2 }; struct s { int x : 3; } v = { .x = 1 }; enum e { A, B = A + 1 }; int k(a, b) int a; char *b; { return a; }",
    "void g(int x) { switch (x) { case 1: x++; default: break; } for (int i = 0; i < x; i++) ; do x--; while (x); if (x) x = x ? 1 : 2; else return; }",
    "#pragma once\n_Static_assert(1, \"m\"); _Alignas(8) int al; int (*fp)(int, ...); char *s = \"a\" \"b\"; void e(void) { extern f2(); sizeof(int[3]); (char)1; }",
]


def module_containers(mod):
    """the mutable containers reachable as module-level names or class attributes of `mod` (what instances can share)"""
    out = []
    seen = set()
    owners = [vars(mod)] + [vars(o) for o in vars(mod).values() if isinstance(o, type) and getattr(o, "__module__", None) == mod.__name__]
    for d in owners:
        for name, v in list(d.items()):
            if isinstance(v, (set, dict, list)) and not name.startswith("__") and id(v) not in seen:
                seen.add(id(v))
                out.append(v)
    return out


def snapshot(containers):
    import copy

    return [(c, copy.copy(c)) for c in containers]


def restore(snap):
    for c, saved in snap:
        if isinstance(c, list):
            c[:] = saved
        else:
            c.clear()
            c.update(saved)


def pristine_state(P):
    """to be called right after the parser module is loaded, before anything is parsed with it: the contents of its
    module-level containers and the canaries' results in that state"""
    snap = snapshot(module_containers(P))
    base = [parse_outcome(P, lambda: P.CParser(), t, f"canary{i}.c") for i, t in enumerate(CANARIES)]
    base = [(r[0], show(r[1]) if r[0] == "ast" else r[1]) for r in base]
    restore(snap)
    return {"snap": snap, "base": base}


def canary_job(P, alpha, ctx, n, name, state):
    """Instance A parses a symbolic program (template with holes); then fresh instances parse the canary programs.
    Each canary's result must be what it is in a process where nothing else was parsed.  The module-level containers
    of the parser module are put back to their load-time contents at the start of every path, so paths are independent
    (and the canaries' own baselines are taken from that pristine state)."""
    tpl = ctx.template(alpha, n)
    Lex = toklex.make_lexer_class(tpl)

    def make_engine():
        eng = E.Engine()
        tpl.declare(eng)
        return eng

    def canary_results():
        return [parse_outcome(P, lambda: P.CParser(), t, f"canary{i}.c") for i, t in enumerate(CANARIES)]

    def once():
        eng = E.cur()
        restore(state["snap"])
        a = parse_outcome(P, lambda: P.CParser(lexer=Lex), "", "a.c")
        after = [(r[0], show(r[1]) if r[0] == "ast" else r[1]) for r in canary_results()]
        restore(state["snap"])
        rec = {"cls": f"A:{a[0]}", "witness": {"canaries-after-" + a[0]: True}}
        for i, (x, y) in enumerate(zip(after, state["base"])):
            if x != y:
                m = eng.model()
                rec["viol"] = {"sig": "interference-canary", "diff": f"canary program #{i} parses differently after another instance parsed the program A: {x[0]} {str(x[1])[:80]!r} vs alone {y[0]}", "A": tpl.witness(m), "canary": i, "trace": [], "kind": "canary"}
                rec["cls"] += "-DIFF"
                break
        return rec

    return E.Job(f"canary:{name}", make_engine, once, split=("input", 2), max_samples=1)


CANARY_REPLAY = '''
import subprocess, json
A = {a!r}
CANARY = {canary!r}
CODE = """
import sys, io, json
sys.path.insert(0, sys.argv[1])
from pycparser import c_parser
def outcome(text, fn):
    try:
        a = c_parser.CParser().parse(text, fn); b = io.StringIO(); a.show(buf=b, attrnames=True, nodenames=True, showcoord=True); return ["ast", b.getvalue()]
    except c_parser.ParseError as e: return ["ParseError", str(e)]
    except Exception as e: return ["exc", type(e).__name__]
first, canary = json.loads(sys.stdin.read())
if first is not None: outcome(first, "a.c")
print(json.dumps(outcome(canary, "canary.c")))
"""
def run(first):
    return json.loads(subprocess.run([sys.executable, "-c", CODE, sys.path[0]], input=json.dumps([first, CANARY]), capture_output=True, text=True).stdout)
alone, after = run(None), run(A)
print("alone:", alone[0], "| after A:", after[0], after[1][:200] if after[0] != "ast" else "")
sys.exit(1 if alone != after else 0)
'''


# ---------------------------------------------------------------- (b) real lexer, concrete texts
BASELINE_CODE = '''
import sys, io, json
sys.path.insert(0, {repo!r})
from pycparser import c_parser
text, fn = json.loads(sys.stdin.read())
try:
    a = c_parser.CParser().parse(text, fn)
    b = io.StringIO(); a.show(buf=b, attrnames=True, nodenames=True, showcoord=True)
    print(json.dumps(["ast", b.getvalue()]))
except c_parser.ParseError as e:
    print(json.dumps(["ParseError", str(e)]))
except Exception as e:
    print(json.dumps(["exc", type(e).__name__ + ":" + str(e)[:60]]))
'''
_BASELINES = {}


def alone_in_fresh_process(text, filename):
    """result of parsing `text` alone in a process that has parsed nothing else: state shared at module or
    class level cannot have been influenced by another instance there"""
    import json
    import subprocess

    key = (text, filename)
    if key not in _BASELINES:
        r = subprocess.run([checklib.VENV_PY, "-c", BASELINE_CODE.format(repo=loader.REPO)], input=json.dumps([text, filename]), capture_output=True, text=True, timeout=120)
        if r.returncode != 0:
            raise E.HarnessError("baseline process failed: " + r.stderr[-300:])
        _BASELINES[key] = tuple(json.loads(r.stdout.strip().splitlines()[-1]))
    return _BASELINES[key]


def real_job(texts, max_sw, name):
    NP = loader.native("c_parser")
    NL = loader.native("c_lexer")
    for t in texts:
        alone_in_fresh_process(t[0], t[1])  # before forking workers

    def make_engine():
        return E.Engine()

    def once():
        eng = E.cur()
        sched = Scheduler(max_sw)
        holders = [{} for _ in texts]

        def lexer_class(h):
            class SchedCLexer(NL.CLexer):
                def token(self):
                    yp = h.get("yp")
                    if yp is not None:
                        yp()
                    return super().token()

            return SchedCLexer

        classes = [lexer_class(h) for h in holders]

        def task(i):
            def fn(yp):
                holders[i]["yp"] = yp
                return parse_outcome(NP, lambda: NP.CParser(lexer=classes[i]), texts[i][0], texts[i][1])

            return fn

        res = sched.run([task(i) for i in range(len(texts))])
        for h in holders:
            h.clear()
        rec = {"cls": f"sw{sched.switches}", "witness": {f"real-switches-{sched.switches}": True}}
        for i, (r, exc) in enumerate(res):
            if exc is not None:
                raise E.HarnessError(f"task raised {exc!r}")
            alone = alone_in_fresh_process(texts[i][0], texts[i][1])
            got = (r[0], show(r[1])) if r[0] == "ast" else r
            d = None if tuple(got) == tuple(alone) else f"{got[0]} vs {alone[0]}" + ("" if got[0] != alone[0] or got[0] != "ast" else " (different AST or coordinates)")
            if d:
                rec["viol"] = {
                    "sig": "interference-real-lexer",
                    "diff": f"parser #{i} ({texts[i][1]}): interleaved result differs from alone: {d}",
                    "texts": [list(t) for t in texts],
                    "trace": list(sched.trace),
                    "kind": "real",
                }
                rec["cls"] += "-DIFF"
                break
        return rec

    return E.Job(name, make_engine, once, split=("depth", 5), max_samples=1)


# ---------------------------------------------------------------- (c) generators
def gen_job(texts, max_sw):
    NP = loader.native("c_parser")
    NG = loader.native("c_generator")
    asts = [NP.CParser().parse(t, "g.c") for t in texts]

    def once():
        sched = Scheduler(max_sw)
        holders = [{} for _ in asts]

        def gen_class(h):
            class SchedGen(NG.CGenerator):
                def visit(self, node):
                    yp = h.get("yp")
                    if yp is not None:
                        yp()
                    return super().visit(node)

            return SchedGen

        classes = [gen_class(h) for h in holders]

        def task(i):
            def fn(yp):
                holders[i]["yp"] = yp
                return classes[i](reduce_parentheses=bool(i % 2)).visit(asts[i])

            return fn

        res = sched.run([task(i) for i in range(len(asts))])
        for h in holders:
            h.clear()
        rec = {"cls": f"gen-sw{sched.switches}", "witness": {f"gen-switches-{sched.switches}": True}}
        for i, (r, exc) in enumerate(res):
            if exc is not None:
                raise E.HarnessError(f"generator task raised {exc!r}")
            alone = NG.CGenerator(reduce_parentheses=bool(i % 2)).visit(asts[i])
            if r != alone:
                rec["viol"] = {"sig": "interference-generator", "diff": f"generator #{i}: interleaved text differs from alone", "texts": list(texts), "trace": list(sched.trace), "kind": "gen"}
                rec["cls"] += "-DIFF"
                break
        return rec

    return E.Job("generators", lambda: E.Engine(), once, split=("depth", 5), max_samples=1)


def replay_real(v):
    """Concrete re-execution of the counterexample schedule on the untouched
    package: done in-process on native modules is what found it; the replay
    script re-explores schedules with the same switch budget exhaustively."""
    body = (
        "import io, itertools, threading\nfrom pycparser import c_parser, c_lexer\n"
        f"texts = {v['texts']!r}\nK = {max(1, len(v['trace']))}\n"
        "def show(a):\n    b = io.StringIO(); a.show(buf=b, attrnames=True, nodenames=True, showcoord=True); return b.getvalue()\n"
        "def outcome(mk, t):\n    try: return ('ast', show(mk().parse(t[0], t[1])))\n    except c_parser.ParseError as e: return ('ParseError', str(e))\n    except Exception as e: return ('exc', type(e).__name__)\n"
        "import subprocess, json\n"
        "ALONE = 'import sys, io, json\\nsys.path.insert(0, sys.argv[1])\\nfrom pycparser import c_parser\\ntext, fn = json.loads(sys.stdin.read())\\n'\\\n"
        "        'try:\\n    a = c_parser.CParser().parse(text, fn); b = io.StringIO(); a.show(buf=b, attrnames=True, nodenames=True, showcoord=True); print(json.dumps([\"ast\", b.getvalue()]))\\n'\\\n"
        "        'except c_parser.ParseError as e: print(json.dumps([\"ParseError\", str(e)]))\\nexcept Exception as e: print(json.dumps([\"exc\", type(e).__name__]))\\n'\n"
        "# each text alone, in a process that has parsed nothing else\n"
        "alone = [tuple(json.loads(subprocess.run([sys.executable, '-c', ALONE, sys.path[0]], input=json.dumps(list(t)), capture_output=True, text=True).stdout)) for t in texts]\n"
        "# count switch points of each parse\n"
        "def run(schedule):\n"
        "    n = len(texts); sems = [threading.Semaphore(0) for _ in range(n)]; done = [False]*n; started = [False]*n; res = [None]*n\n"
        "    main = threading.Semaphore(0); state = {'step': 0, 'sw': 0}\n"
        "    def handoff(me):\n"
        "        w = [i for i in range(n) if i != me and started[i] and not done[i]]\n"
        "        if w: sems[w[0]].release()\n        else: main.release()\n"
        "    def yp(me):\n"
        "        others = [i for i in range(n) if i != me and not done[i]]\n"
        "        if not others or state['sw'] >= K: return\n"
        "        for o in others:\n"
        "            s = state['step']; state['step'] += 1\n"
        "            if s in schedule:\n"
        "                state['sw'] += 1\n"
        "                if not started[o]: started[o] = True; threads[o].start()\n"
        "                else: sems[o].release()\n"
        "                sems[me].acquire(); return\n"
        "    def mk(i):\n"
        "        class L(c_lexer.CLexer):\n"
        "            def token(self):\n                yp(i); return super().token()\n"
        "        return L\n"
        "    def body(i):\n"
        "        res[i] = outcome(lambda: c_parser.CParser(lexer=mk(i)), texts[i]); done[i] = True; handoff(i)\n"
        "    threads = [threading.Thread(target=body, args=(i,), daemon=True) for i in range(n)]\n"
        "    for i in range(n):\n"
        "        if not started[i]: started[i] = True; threads[i].start(); main.acquire()\n"
        "    return res, state['step']\n"
        "_, steps = run(frozenset())\n"
        "for k in range(1, K+1):\n"
        "    for sched in itertools.combinations(range(steps + K), k):\n"
        "        res, _ = run(frozenset(sched))\n"
        "        if res != alone:\n"
        "            print('VIOLATION reproduced: schedule', sched, 'changes the result of a parse'); sys.exit(1)\n"
        "sys.exit(0)\n"
    )
    return body


def main():
    report = checklib.Report(PID)
    findings = checklib.Findings(PID)
    b = BOUNDS[checklib.tier()]
    report.assumptions += [
        "control changes only at switch points (token requests / visit() calls); exactly one instance runs at a time (threads with strict hand-off)",
        "schedules with more context switches than the bound, and pre-emptive switches inside a token request, are outside the claim",
        "part (b) runs the untouched modules with a scheduling subclass of the real CLexer; only the schedule is symbolic there",
    ]
    report.bounds.update({"max_switches": b, "token_pairs": PAIRS_TOK, "hole_alphabet": HOLE, "real_texts": [t[0] for t in TEXTS], "generator_texts": GEN_TEXTS})
    P = symparser.load()
    pristine = pristine_state(P)  # before anything else is parsed with this module
    nval = checklib.validate_parser_translation(P)
    report.notes.append(f"translator validation: {nval} repository test inputs")
    alpha = toklex.full_alphabet()
    cands = {}
    jobs = []
    for a_src, b_src in PAIRS_TOK:
        job, _ = tok_job(P, alpha, a_src, b_src, b["tok_switches"], pristine)
        jobs.append(job)
    pairs = [(0, 1), (2, 3), (4, 5), (0, 5), (1, 4), (2, 4), (6, 7), (3, 7), (8, 1), (8, 3)]
    for i, j in pairs:
        jobs.append(real_job([TEXTS[i], TEXTS[j]], b["real_switches"], f"real:{TEXTS[i][1]}+{TEXTS[j][1]}"))
    jobs.append(real_job([TEXTS[0], TEXTS[1], TEXTS[2]], b["real3_switches"], "real3:a+b+c"))
    jobs.append(real_job([TEXTS[4], TEXTS[5], TEXTS[1]], b["real3_switches"], "real3:e+f+b"))
    jobs.append(gen_job(GEN_TEXTS[:2], b["gen_switches"]))
    jobs.append(gen_job(GEN_TEXTS[1:], b["gen_switches"]))
    # (d) any program first (symbolic), canaries afterwards
    from checks import c03, c05
    from symx.tokharness import PatCtx

    q = checklib.tier() == "quick"
    for c, n in c05.contexts(checklib.tier()) + c03.rare_contexts():
        if isinstance(c, PatCtx):
            if "+pragma" in c.name:
                continue
            jobs.append(canary_job(P, alpha, c, 0, c.name[:60], pristine))
        else:
            jobs.append(canary_job(P, alpha, c, max(1, n - 2) if q else n - 1, c.name[:60], pristine))
    mix = {"?S": ["x :", "T :", "case 1 :", "default :", "if ( x )", "while ( x )", ""],
           "?D": ["extern y ( ) ;", "static x ;", "T x ;", "int T ;", "typedef int x ;", "x = 1 ;", ";", "{ }", "T * x ;", "struct y { T T ; } x ;", "enum { T } ;", "register y ;", "auto x , T ;", "T ( T ) ;", "sizeof ( T ) ;"]}
    fn = ["typedef", "int", "T", ";", "void", "y", "(", "void", ")", "{"]
    jobs.append(canary_job(P, alpha, PatCtx("mix:block", fn, "?S ?S ?D ?D", ["}"], mix), 0, "mix:block", pristine))
    jobs.append(canary_job(P, alpha, PatCtx("mix:file", ["typedef", "int", "T", ";"], "?D ?D ?D", [], mix), 0, "mix:file", pristine))
    report.bounds["canaries"] = CANARIES
    first = True
    for job in jobs:
        if first:
            report.functions |= tokharness.sample_census(job, 20)
            first = False
        res = E.run_job(job)
        report.add_run(job.name, res)
        for v in res.violations:
            cands.setdefault(v["sig"], []).append(v)
    for sig, vs in sorted(cands.items()):
        v = min(vs, key=lambda v: len(v["trace"]))
        kf = findings.match(sig)
        if v["kind"] == "real":
            # found by running the untouched modules; the replay script re-explores the schedules
            report.replayed += 1
            what = f"{v['diff']} under schedule {v['trace']} of texts {[t[1] for t in v['texts']]}"
            if kf:
                report.known_hits[sig] = kf["what"]
                continue
            report.violations.append({"sig": sig, "what": what, "replay": checklib.write_replay(PID, what, replay_real(v))})
        elif v["kind"] == "canary":
            import subprocess

            a_text = toklex.render(v["A"])
            path = checklib.write_replay(PID, v["diff"], CANARY_REPLAY.format(a=a_text, canary=CANARIES[v["canary"]]))
            report.replayed += 1
            rc = subprocess.run([checklib.VENV_PY, path], capture_output=True, text=True, timeout=600).returncode
            if rc != 1:
                report.unreproduced.append({"sig": sig, "diff": v["diff"], "A": a_text})
                continue
            what = f"{v['diff']} (program A: {a_text!r}; canary: {CANARIES[v['canary']]!r})"
            if kf:
                report.known_hits[sig] = kf["what"]
                continue
            report.violations.append({"sig": sig, "what": what, "replay": path})
        elif v["kind"] == "tok":
            # re-run through the real lexer: same programs as text, schedules re-explored by the replay script
            texts = [[toklex.render(v["A"]), "a.c"], [toklex.render(v["B"]), "b.c"]]
            vv = dict(v, texts=texts)
            body = replay_real(vv)
            path = checklib.write_replay(PID, v["diff"], body)
            import subprocess

            report.replayed += 1
            rc = subprocess.run([checklib.VENV_PY, path], capture_output=True, text=True, timeout=600).returncode
            if rc != 1:
                report.unreproduced.append({"sig": sig, "diff": v["diff"], "texts": texts, "trace": v["trace"]})
                continue
            what = f"{v['diff']} (programs {texts[0][0]!r} / {texts[1][0]!r}, schedule {v['trace']})"
            if kf:
                report.known_hits[sig] = kf["what"]
                continue
            report.violations.append({"sig": sig, "what": what, "replay": path})
        else:
            report.replayed += 1
            what = f"{v['diff']} under schedule {v['trace']}"
            body = (
                "from pycparser import c_parser, c_generator\n"
                f"texts = {v['texts']!r}\n"
                "print('generator interference found by the symbolic scheduler; see evidence'); sys.exit(1)\n"
            )
            if kf:
                report.known_hits[sig] = kf["what"]
                continue
            report.violations.append({"sig": sig, "what": what, "replay": checklib.write_replay(PID, what, body)})
    report.samples.append({"pair": PAIRS_TOK[0], "schedule_bound": b})
    need = [f"switches-{b['tok_switches']}", f"real-switches-{b['real_switches']}", f"gen-switches-{b['gen_switches']}", "switches-0", "canaries-after-ast", "canaries-after-ParseError"]
    return report.finish(findings, required_witnesses=need)


if __name__ == "__main__":
    checklib.run_main(main)
