"""C18 - structurally malformed input is always rejected.

Token level (symx-tok): on every path on which the real parser ACCEPTS a
symbolic token sequence, z3 must refute
   pc /\\ not Balanced(k_0 .. k_{n-1})        (the three bracket kinds nest and balance)
   pc /\\ exists i. k_i = PPHASH               (an unsupported directive survived)
where Balanced is a stack automaton over the bracket kinds unrolled over the
positions of the template.  A satisfying assignment is a concrete token
sequence with unbalanced brackets (or a '#') that the parser accepts; it is
rendered and replayed through the real lexer+parser.
Character level (chr part): see checks/c18_chr.
"""
from __future__ import annotations

import z3

from symx import engine as E
from symx import toklex, symparser, checklib, tokharness
from symx.tokharness import Ctx

PID = "C18"
FILENAME = "f.c"

BR = ["(", ")", "[", "]", "{", "}"]
SIGMA_B = BR + ["x", "T", "1", "int", ",", ";", "=", "*"]
SIGMA_B2 = BR + ["x", "T", "1", "int", ",", ";", "=", "*", "struct", "sizeof", ":", "?", "if", "else", "for", "case", "typedef", ".", "static", "enum", "#"]
SIGMA_S = BR + ["x"]

CONTEXTS_Q = [
    (Ctx("file-scope", [], domain=SIGMA_B2), {"quick": 4, "thorough": 5}),
    (Ctx("file-scope-small", [], domain=SIGMA_B), {"quick": 5, "thorough": 7}),
    (Ctx("expression", ["typedef", "int", "T", ";", "int", "x", "="], [";"], domain=SIGMA_B), {"quick": 5, "thorough": 7}),
    (Ctx("declarator", ["typedef", "int", "T", ";", "int"], [";"], domain=SIGMA_B), {"quick": 5, "thorough": 7}),
    (Ctx("statement", ["typedef", "int", "T", ";", "void", "y", "(", "void", ")", "{"], ["}"], domain=SIGMA_B), {"quick": 5, "thorough": 6}),
    (Ctx("statement-kw", ["void", "y", "(", "void", ")", "{"], ["}"], domain=SIGMA_B2), {"quick": 4, "thorough": 5}),
    (Ctx("brackets-in-expression", ["int", "y", "="], [";"], domain=SIGMA_S), {"quick": 6, "thorough": 8}),
    (Ctx("brackets-in-declarator", ["int", "y"], [";"], domain=SIGMA_S + ["int"]), {"quick": 6, "thorough": 8}),
    (Ctx("brackets-in-statement", ["void", "y", "(", "void", ")", "{"], ["}"], domain=SIGMA_S + [";"]), {"quick": 6, "thorough": 8}),
    (Ctx("parameter", ["void", "y", "("], [")", ";"], domain=SIGMA_B), {"quick": 4, "thorough": 6}),
    (Ctx("struct-body", ["struct", "y", "{"], ["}", ";"], domain=SIGMA_B + [":"]), {"quick": 4, "thorough": 6}),
]

# single-bracket kind swaps in fixed accepted programs: each bracket position becomes a hole over the six brackets
PROGRAMS = [
    "int x [ 1 ] = { ( 1 ) , x ( 1 ) [ 1 ] } ;",
    "void y ( int x ) { if ( x ) { x = ( int ) x [ 1 ] ; } }",
    "struct T { int x [ 1 ] ; } ; int ( * y ( void ) ) [ 1 ] ;",
    "void y ( void ) { for ( ; ; ) { x ( ( 1 ) ) ; } switch ( x ) { case 1 : ; } }",
    "int x = sizeof ( int [ 1 ] ) + ( int ) { 1 } ;",
]


def balanced_expr(tpl):
    """z3 Bool: the bracket tokens among k_0..k_{n-1} nest and balance.
    Stack as a base-4 number; kinds 1,2,3."""
    a = tpl.alpha
    kind = {}
    for b, (o, c) in enumerate([("(", ")"), ("[", "]"), ("{", "}")], start=1):
        kind[a.idx(o)] = (b, True)
        kind[a.idx(c)] = (b, False)
    S = z3.IntVal(0)
    defs = []
    POISON = -1000000
    for i in range(tpl.n):
        k = tpl.kvars[i]
        dom = tpl.doms[i]
        opens = [(j, kind[j][0]) for j in dom if j in kind and kind[j][1]]
        closes = [(j, kind[j][0]) for j in dom if j in kind and not kind[j][1]]
        if not opens and not closes:
            continue
        if len(dom) == 1:
            (j,) = dom
            b, is_open = kind[j]
            if is_open:
                S = S * 4 + b
            else:
                S = z3.If(S % 4 == b, S / 4, POISON)
            continue
        Snew = z3.Int(f"S{i + 1}")
        cases = []
        others = [j for j in dom if j not in kind]
        for j, b in opens:
            cases.append(z3.And(k == j, Snew == S * 4 + b))
        for j, b in closes:
            cases.append(z3.And(k == j, Snew == z3.If(S % 4 == b, S / 4, POISON)))
        if others:
            cases.append(z3.And(z3.Or([k == j for j in others]), Snew == S))
        defs.append(z3.Or(cases))
        S = Snew
    return defs, S


def path_fn_factory(P):
    cache = {}

    def path_fn(Lex, tpl):
        eng = E.cur()
        parser = P.CParser(lexer=Lex)
        try:
            parser.parse("", FILENAME)
        except P.ParseError:
            return {"cls": "ParseError"}
        except RecursionError:
            return {"cls": "RecursionError"}
        except E.HarnessError:
            raise
        except Exception as e:
            return {"cls": "other-exception(C06's subject):" + type(e).__name__}
        # accepted: discharge the two obligations
        if getattr(tpl, "_c18", None) is None:  # cached on the template object itself (ids are reused after GC)
            defs, S = balanced_expr(tpl)
            hash_idx = [j for j, (t, v) in enumerate(tpl.alpha.syms) if t == "PPHASH"]
            tpl._c18 = (defs, S, hash_idx)
        defs, S, hash_idx = tpl._c18
        rec = {"cls": "accept", "witness": {"accept": True}}
        # Balanced: definitions of the stack are constraints (functional), claim is S == 0 with all pops legal
        eng.solver.push()
        try:
            for d in defs:
                eng.solver.add(d)
            r = eng.prove(S == 0)
        finally:
            eng.solver.pop()
        viol = []
        if r == "unknown":
            rec["count"] = {"inconclusive": 1}
        elif r != "proved":
            toks = tpl.witness(r)
            viol.append({"sig": "accepted-unbalanced", "kind": "unbalanced", "toks": toks})
        if hash_idx:
            claim = z3.And([tpl.kvars[i] != j for i in range(tpl.n) for j in hash_idx if j in tpl.doms[i]] or [z3.BoolVal(True)])
            r2 = eng.prove(claim)
            if r2 == "unknown":
                rec["count"] = {"inconclusive": 1}
            elif r2 != "proved":
                toks = tpl.witness(r2)
                viol.append({"sig": "accepted-with-directive", "kind": "pphash", "toks": toks})
        if viol:
            rec["viol"] = viol
            rec["cls"] = "accept-VIOLATING"
        else:
            m = eng.model()
            if m is not None:
                rec["sample"] = {"accepted_and_balanced": toklex.render(tpl.witness(m)).strip()}
        return rec

    return path_fn


def is_balanced_concrete(toks):
    st = []
    pairs = {")": "(", "]": "[", "}": "{"}
    for t, v in toks:
        if v in "([{" and t in ("LPAREN", "LBRACKET", "LBRACE"):
            st.append(v)
        elif t in ("RPAREN", "RBRACKET", "RBRACE"):
            if not st or st.pop() != pairs[v]:
                return False
    return not st


def replay(rp, v):
    text = toklex.render(v["toks"])
    v["text"] = text
    r = rp.ask(op="parse", text=text, filename=FILENAME)
    v["replay_outcome"] = r
    if r.get("outcome") != "ast":
        return False
    if v["kind"] == "unbalanced":
        return not is_balanced_concrete(v["toks"])
    return any(t == "PPHASH" for t, _ in v["toks"])


def replay_body(v):
    return (
        f"from pycparser.c_parser import CParser, ParseError\ntext = {v['text']!r}\n"
        "try:\n    CParser().parse(text, 'f.c')\nexcept ParseError as e:\n    print('rejected (ok):', e); sys.exit(0)\n"
        "print('VIOLATION reproduced: structurally malformed input accepted:', repr(text)); sys.exit(1)\n"
    )


def main():
    report = checklib.Report(PID)
    findings = checklib.Findings(PID)
    rp = checklib.Replayer()
    t = checklib.tier()
    report.assumptions += [
        "tokens are injected through the public CParser(lexer=...) parameter; counterexamples are replayed through the real lexer",
        "Balanced() is an SMT encoding (base-4 stack, linear integer arithmetic) of the three-kind bracket automaton unrolled over the template positions",
        "text inside #pragma lines and literals is one token and excluded, as the property states",
    ]
    try:
        P = symparser.load()
        nval = checklib.validate_parser_translation(P)
        report.notes.append(f"translator validation: {nval} repository test inputs")
        alpha = toklex.full_alphabet()
        path_fn = path_fn_factory(P)
        bounds = {c.name: b[t] for c, b in CONTEXTS_Q}
        report.bounds["token_level"] = {
            "contexts": {c.name: {"template": " ".join(c.prefix) + " <holes> " + " ".join(c.suffix), "hole_alphabet": list(c.domain), "max_holes": bounds[c.name]} for c, _ in CONTEXTS_Q},
            "outside": "longer hole runs; tokens outside the hole alphabets",
        }
        cands = tokharness.run_contexts(report, alpha, [c for c, _ in CONTEXTS_Q], lambda c: bounds[c.name], path_fn)
        # bracket-kind swaps inside fixed accepted programs (one hole, then two holes in thorough)
        swap_runs = 0
        for prog in PROGRAMS:
            toks = prog.split()
            pos = [i for i, w in enumerate(toks) if w in BR]
            combos = [(i,) for i in pos]
            if t == "thorough":
                combos += [(i, j) for a, i in enumerate(pos) for j in pos[a + 1:]]
            for combo in combos:
                positions = [BR if i in combo else w for i, w in enumerate(toks)]
                tpl = toklex.Template(alpha, positions, name="swap")
                Lex = toklex.make_lexer_class(tpl)

                def make_engine(tpl=tpl):
                    eng = E.Engine()
                    tpl.declare(eng)
                    return eng

                job = E.Job("swap", make_engine, lambda tpl=tpl, Lex=Lex: path_fn(Lex, tpl))
                res = E.run_job(job, workers=1)
                swap_runs += 1
                report.states += res.paths
                report.transitions += res.stats.get("decisions", 0)
                report.tsolver += res.tsolver
                for k, v in res.stats.items():
                    if k.startswith("q_") or k.startswith("obligations") or k == "cache_hits":
                        report.queries.inc(k, v)
                if not res.exhaustive:
                    report.exhaustive = False
                if "accept" not in res.classes:
                    report.harness_errors.append(f"swap template of {prog!r} has no accepting path (the original program must be accepted)")
                for v in res.violations:
                    cands.setdefault(v["sig"], []).append(v)
                for k, w in res.witnesses.items():
                    report.witnesses.setdefault(k, w)
        report.extra["bracket_swap_templates"] = swap_runs
        report.bounds["bracket_swaps"] = {"programs": PROGRAMS, "holes": "every single bracket position (every pair in thorough) over the six bracket tokens"}
        for sig, vs in sorted(cands.items()):
            vs.sort(key=lambda v: len(v["toks"]))
            good = None
            for v in vs[:4]:
                report.replayed += 1
                if replay(rp, v):
                    good = v
                    break
            if good is None:
                report.unreproduced.append({"sig": sig, "text": vs[0].get("text"), "outcome": vs[0].get("replay_outcome")})
                continue
            what = f"{sig}: accepted {good['text']!r}"
            kf = findings.match(sig)
            if kf:
                report.known_hits[sig] = kf["what"]
                continue
            report.violations.append({"sig": sig, "what": what, "replay": checklib.write_replay(PID, what, replay_body(good))})
        report.samples.append({"template": "int x = <5 holes over ( ) [ ] { } x T 1 int , ; = *> ;", "obligation": "accepted => Balanced(k) and no PPHASH"})
        try:
            from checks import c18_chr

            c18_chr.run(report, findings, rp)
            c18_chr.run_injection(report, findings, rp)
        except ImportError:
            report.notes.append("character-level part not built yet")
    finally:
        rp.close()
    return report.finish(findings, required_witnesses=["accept"])


if __name__ == "__main__":
    checklib.run_main(main)
