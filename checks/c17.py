"""C17 - the AST (minus coordinates) depends only on the token sequence.

Decided as a composition of three lemmas, each by symbolic execution of the real code:

 1. Layout lemma (symx-chr, the one-step harness of C09): from an ARBITRARY lexer
    state, on a window W.R where W is any run of blanks, newlines and well-formed
    #line / linemarker lines, token() returns the token the reference finds at the
    start of R - class and spelling do not depend on W, nor on the line/offset state.
    Hence the (type, value) stream is invariant under re-layout and linemarker insertion.
 2. Coordinate non-interference (symx-tok): with per-token line, column and file tag
    as free symbols, whenever the parser's control flow consults a coordinate the same
    tokens are parsed again under the canonical layout inside the path and must give
    the same result; no coordinate may occur in a non-coord slot of the AST nor in
    CGenerator's output.  Hence AST-minus-coord and generated text are functions of the
    (type, value) stream.
 3. Parenthesis lemma (symx-tok product): each operator-hole pattern of C02 is parsed
    together with its variants in which one operand (a single operand token, or an
    already parenthesised group) is wrapped in redundant parentheses; the hole
    variables are shared, the ASTs must be equal coordinates aside and the generated
    texts identical.
Pragma lines are part of the token stream and are not re-laid out (as the property says).
"""
from __future__ import annotations

import z3

from symx import engine as E
from symx import checklib, loader, symlexer, symparser, toklex, tokharness, diffharness as D
from symx.engine import IntervalSet
from symx.proxies import SymInt, FileTag
from symx.symtext import SymBase
from symx.tokharness import Ctx, PatCtx
from checks import c02, c03, c05, c09, c11

PID = "C17"
BOUNDS = {"quick": {"window": 5, "directive": 7}, "thorough": {"window": 7, "directive": 9}}


# ---------------------------------------------------------------- lemma 1
def lemma1(report, cands, rp):
    Lmod = symlexer.load()
    nval = symlexer.validate_lexer_translation(Lmod, checklib.repo_test_snippets())
    report.notes.append(f"lexer translator validation: {nval} repository inputs")
    b = BOUNDS[checklib.tier()]
    red = IntervalSet([(ord(ch), ord(ch)) for ch in c09.DIRECTIVE_ALPHABET])
    jobs = [(c09.make_job(Lmod, SymBase(n, name="c", minlen=n), f"layout-step/{n}"), n) for n in range(1, b["window"] + 1)]
    jobs += [(c09.make_job(Lmod, SymBase(n, name="c", minlen=n, alphabet=red), f"layout-directive/{n}", first_char="#"), n) for n in range(3, b["directive"] + 1)]
    skipped_tokens = 0
    for job, n in jobs:
        res = E.run_job(job, workers=None if n >= 5 else 1)
        report.add_run(job.name, res)
        skipped_tokens += sum(v for k, v in res.classes.items() if k.startswith("token"))
        for v in res.violations:
            if v["what"].startswith(("expected", "only blanks", "None returned")) or "spelling" in v["what"] or "type callback" in v["what"]:
                v["lemma"] = 1
                cands.setdefault("layout:" + v["sig"], []).append(v)
    report.extra["lemma1_token_obligations"] = skipped_tokens
    if skipped_tokens:
        report.witnesses["lemma1"] = True


# ---------------------------------------------------------------- lemma 2
def has_coord_leak(node, path="ast"):
    """a coordinate value outside a coord slot"""
    for name in type(node).__slots__:
        if name in ("coord", "__weakref__"):
            continue
        v = getattr(node, name)
        for x in (v if isinstance(v, (list, tuple)) else [v]):
            if isinstance(x, (SymInt, FileTag)):
                return f"{path}.{name} holds a coordinate value"
            if c11.is_node(x):
                r = has_coord_leak(x, f"{path}.{name}")
                if r:
                    return r
    return None


def lemma2(report, cands):
    P = symparser.load()
    NG = loader.native("c_generator")
    alpha = toklex.full_alphabet()
    q = checklib.tier() == "quick"
    ctxs = []
    for c, n in c02.contexts(checklib.tier()) + c03.contexts(checklib.tier()) + c05.contexts(checklib.tier()):
        if isinstance(c, PatCtx):
            if "+pragma" in c.name or (q and sum(1 for w in c.pattern if w in c.classes) >= 3):
                continue
            ctxs.append((PatCtx("ni:" + c.name, c.prefix, " ".join(c.pattern), c.suffix, c.classes), 0))
        else:
            ctxs.append((Ctx("ni:" + c.name, c.prefix, c.suffix, domain=c.domain), max(1, n - 2) if q else n - 1))
    cls = {"?V": ["x", "1"], "?O": ["+", "*", ","]}
    for i, pat in enumerate(["x = ( T ) ?V ?O ( ?V ) ?O sizeof ( T ) ?O ( ?V ) ;", "x = sizeof ( T ) ?O ( ?V ) ?O ( T ) { ?V } ?O ( ?V ) ;", "x = ( T ) ?V ?O ( int ) ?V ?O ( char ) ( T ) ?V ;", "x = sizeof ( T ) ?O sizeof ( int ) ?O ( T ) { ?V } . x ?O ( int ) { ?V } ;"]):
        ctxs.append((PatCtx(f"ni:parens{i}:{pat}", c05.FN, pat, ["}"], cls), 0))

    def path_fn(Lex, tpl):
        eng = E.cur()
        eng.tainted_decisions = 0
        impl = D.run_parser(P, Lex, tpl)
        rec = {"cls": impl[0], "witness": {"lemma2-" + impl[0]: True}}
        probs = []
        if eng.tainted_decisions:
            rec["count"] = {"paths_with_coordinate_dependent_decisions": 1}
            Lex2 = toklex.make_lexer_class(tpl, sym_coords=False, file_tags=False)
            impl2 = D.run_parser(P, Lex2, tpl)
            d = None
            if impl2[0] != impl[0]:
                d = f"{impl[0]} under this layout, {impl2[0]} with every token at a distinct position"
            elif impl[0] == "ast":
                d = tokharness.ast_diff(impl[1], impl2[1], coords=False)
            if d:
                probs.append(("layout-dependent-result", f"the result depends on token coordinates (the parser compared {eng.path_notes[:2]}): {d}"))
        if impl[0] == "ast":
            leak = has_coord_leak(impl[1])
            if leak:
                probs.append(("coordinate-leak", leak))
            for rpar in (False, True):
                try:
                    g = NG.CGenerator(reduce_parentheses=rpar).visit(impl[1])
                except (E.HarnessError, E.Abort):
                    raise
                except Exception:
                    g = ""
                if "\x01I" in g or "\x01F" in g:
                    probs.append(("coordinate-in-generated-text", "CGenerator's output contains a coordinate"))
        if probs:
            m = eng.model()
            toks = tpl.witness(m)
            xy = tpl.coords_witness(m)
            rec["viol"] = [{"sig": s, "what": w, "toks": toks, "xy": xy, "kind": impl[0], "lemma": 2} for s, w in probs]
        return rec

    bounds = {c.name: n for c, n in ctxs}
    got = tokharness.run_contexts(report, alpha, [c for c, _ in ctxs], lambda c: bounds[c.name], path_fn, sym_coords=True, file_tags=True, parallel_from=4, census=False)
    for k, v in got.items():
        cands.setdefault(k, []).extend(v)


# ---------------------------------------------------------------- lemma 3
def paren_variants(words):
    """token lists with one operand wrapped in redundant parentheses"""
    out = []
    for i, w in enumerate(words):
        if w in ("x", "1") and not (i > 0 and words[i - 1] in ("?M", ".", "->")):  # a member name is not an operand
            out.append(words[:i] + ["(", w, ")"] + words[i + 1:])
    # an already parenthesised group: ( ... ) -> ( ( ... ) ), except the '( T )' of casts / sizeof / compound literals
    stack = []
    for i, w in enumerate(words):
        if w == "(":
            stack.append(i)
        elif w == ")" and stack:
            a = stack.pop()
            inner = words[a + 1:i]
            if inner == ["T"]:
                continue
            if a > 0 and words[a - 1] in ("x",):  # call parentheses are not grouping parentheses
                continue
            out.append(words[:a] + ["("] + words[a:i + 1] + [")"] + words[i + 1:])
    return out


def lemma3(report, cands):
    P = symparser.load()
    NG = loader.native("c_generator")
    alpha = toklex.full_alphabet()
    pats = [p for p in c02.PATTERNS if "{" not in p and "_Alignof" not in p]
    if checklib.tier() == "quick":
        pats = [p for p in pats if p.count("?") <= 3]
    # operands that are the first token of a labelled statement (whether a statement follows a label is decided by a
    # first-token test; the label name y is not an operand)
    pats += ["y : 1 ?O x ?O x", "y : x ?O 1", "switch ( x ) { case 1 : 1 ?O x ; default : 1 ? x : 1 ; } x ?O 1", "y : y : 1 ?O x ; if ( x ) y : 1 ?O x ; else 1 ?O x"]
    pairs = 0
    for pi, pat in enumerate(pats):
        words = pat.split()
        holes = [i for i, w in enumerate(words) if (w in c02.OPS)]
        for vi, var in enumerate(paren_variants(words)):
            # ONE template: the original program, then the variant; the variant's holes are aliases of the original's
            progA = c02.FN + [list(c02.OPS[w]) if (w in c02.OPS) else w for w in words] + [";", "}"]
            offA = len(c02.FN)
            nA = len(progA)
            progB = list(c02.FN)
            k = 0
            for w in var:
                if (w in c02.OPS):
                    progB.append(("=", offA + holes[k]))
                    k += 1
                else:
                    progB.append(w)
            progB += [";", "}"]
            tpl = toklex.Template(alpha, progA + progB)
            LexA = toklex.make_lexer_class(tpl, start=0, end=nA)
            LexB = toklex.make_lexer_class(tpl, start=nA, end=None)

            def make_engine(tpl=tpl):
                eng = E.Engine()
                tpl.declare(eng)
                return eng

            def once(tpl=tpl, LexA=LexA, LexB=LexB, nA=nA):
                eng = E.cur()
                a = D.run_parser(P, LexA, tpl)
                b = D.run_parser(P, LexB, tpl)
                rec = {"cls": f"{a[0]}/{b[0]}", "witness": {"lemma3-" + a[0]: True}}
                d = None
                if a[0] != b[0]:
                    d = f"original {a[0]}, with redundant parentheses {b[0]}"
                elif a[0] == "ast":
                    d = tokharness.ast_diff(a[1], b[1], coords=False)
                if d:
                    m = eng.model()
                    w = tpl.witness(m)
                    rec["viol"] = {"sig": "redundant-parentheses-change-the-tree", "what": f"redundant parentheses change the result: {d}", "toks": w[:nA], "toks2": w[nA:], "lemma": 3}
                return rec

            job = E.Job(f"parens:{pi}.{vi}", make_engine, once, max_samples=1)
            res = E.run_job(job, workers=1)
            pairs += 1
            report.states += res.paths
            report.transitions += res.stats.get("decisions", 0)
            report.tsolver += res.tsolver
            for k2, v in res.stats.items():
                if k2.startswith("q_") or k2 == "cache_hits":
                    report.queries.inc(k2, v)
            if not res.exhaustive:
                report.exhaustive = False
            for k2, w in res.witnesses.items():
                report.witnesses.setdefault(k2, w)
            for v in res.violations:
                cands.setdefault(v["sig"], []).append(v)
    report.extra["lemma3_pattern_variant_pairs"] = pairs


def main():
    report = checklib.Report(PID)
    findings = checklib.Findings(PID)
    rp = checklib.Replayer()
    report.assumptions += [
        "composition of three lemmas (module docstring); the interaction 'look-ahead timing vs typedef classification' is layout-independent because tokens are pulled on demand whatever separates them: argued, not checked",
        "lemma 1 inherits C09's bounds (window = remaining input), lemmas 2 and 3 the template bounds of C02/C03/C05",
    ]
    cands = {}
    try:
        lemma1(report, cands, rp)
        lemma2(report, cands)
        lemma3(report, cands)
        report.functions |= {"pycparser/c_lexer.py:CLexer.token (sre model)", "pycparser/c_parser.py:CParser.* (symbolic coordinates)", "pycparser/c_generator.py:CGenerator.* (on symbolic ASTs)"}
        for sig, vs in sorted(cands.items()):
            vs.sort(key=lambda v: len(v.get("toks", v.get("text", ""))))
            good = None
            detail = None
            for v in vs[:6]:
                report.replayed += 1
                if v["lemma"] == 1:
                    ok = c09.replay(rp, v)
                    detail = v.get("replay_outcome")
                    text = v["text"]
                elif v["lemma"] == 2:
                    # every lemma-2 violation shows as: the same tokens under the solver's layout parse / generate differently
                    ok, detail = c11.replay(rp, dict(v, sig="layout-dependent-result"))
                    v["layout_code"] = c11.LAYOUT_DIFF.format(plain=toklex.render(v["toks"]), laid=c11.layout_xy(v["toks"], v["xy"]))
                    text = v.get("text", toklex.render(v["toks"]))
                else:
                    t1, t2 = toklex.render(v["toks"]), toklex.render(v["toks2"])
                    r = rp.ask(op="exec", code=c11.LAYOUT_DIFF.format(plain=t1, laid=t2))
                    ok = isinstance(r, dict) and r.get("same") is False
                    detail = r
                    text = t1 + " || " + t2
                    v["layout_code"] = c11.LAYOUT_DIFF.format(plain=t1, laid=t2)
                if ok:
                    good = v
                    good["shown"] = text
                    break
            if good is None:
                report.unreproduced.append({"sig": sig, "what": vs[0]["what"], "detail": str(detail)[:300]})
                continue
            what = f"[{sig}] {good['what']} -- {good['shown']!r}"
            kf = findings.match(sig, good["shown"])
            if kf:
                report.known_hits[kf.get("id", sig)] = kf["what"]
                continue
            if good["lemma"] == 1:
                body = c09.REPLAY_CODE.format(text=good["text"], istype=good["istype"], ell=7, delta=3) + f"print(RESULT)\nprint({good['what']!r})\nsys.exit(1)\n"
            else:
                body = good["layout_code"] + "print(RESULT)\nsys.exit(0 if RESULT['same'] else 1)\n"
            report.violations.append({"sig": sig, "what": what, "replay": checklib.write_replay(PID, what, body)})
    finally:
        rp.close()
    return report.finish(findings, required_witnesses=["lemma1", "lemma2-ast", "lemma3-ast"])


if __name__ == "__main__":
    checklib.run_main(main)
