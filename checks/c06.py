"""C06 - parse() either returns a FileAST or raises ParseError - nothing else.

symx-tok: the real CParser (loaded from the repository's current source) is
executed on symbolic token sequences; every feasible path is classified by
what parse() did.  Allowed: FileAST; ParseError whose message starts with a
source location built from the file name; RecursionError.  Anything else is a
candidate violation: the solver's witness is rendered to text and replayed on
the untouched package through the real lexer before it is reported.
symx-chr (checks/c06 part 2, see chrpart): the real lexer+parser on symbolic
characters.
"""
from __future__ import annotations

import re
import sys

from symx import engine as E
from symx import toklex, symparser, checklib, tokharness
from symx.tokharness import Ctx

PID = "C06"
FILENAME = "f.c"
LOC_RE = re.compile(r"^" + re.escape(FILENAME) + r"(:(\d+|\x01I[^\x02]*\x02)(:(\d+|\x01I[^\x02]*\x02))?)?: ")

CONTEXTS = [
    Ctx("file-scope", []),
    Ctx("function-body", ["void", "x", "(", "void", ")", "{"]),
    Ctx("function-body-closed", ["void", "x", "(", "void", ")", "{"], ["}"]),
    Ctx("struct-body", ["struct", "x", "{"]),
    Ctx("initializer", ["int", "x", "=", "{"]),
    Ctx("init-expr", ["int", "x", "="], [";"]),
    Ctx("parameter-list", ["void", "x", "("]),
    Ctx("array-bound", ["int", "x", "["]),
    Ctx("enum-body", ["enum", "x", "{"]),
    Ctx("switch-body", ["void", "x", "(", "void", ")", "{", "switch", "(", "y", ")", "{"]),
    Ctx("knr-decl-list", ["int", "x", "(", "y", ")"]),
    Ctx("after-typedef", ["typedef", "int", "T", ";"]),
    Ctx("after-specifiers", ["static", "const", "int"]),
    Ctx("atomic-specifier", ["_Atomic", "(", "int"]),
    Ctx("atomic-specifier-in-struct", ["struct", "y", "{", "_Atomic", "("]),
    Ctx("atomic-specifier-in-parameter", ["void", "y", "(", "_Atomic", "(", "int"]),
    Ctx("sizeof-type-name", ["int", "x", "=", "sizeof", "("], [")", ";"]),
    Ctx("alignas", ["_Alignas", "("]),
    Ctx("enum-in-parenthesised-declarator", ["int", "(", "x", "(", "enum", "{", "y", "}"]),
]

BOUNDS = {
    # context name -> max holes
    "quick": {"file-scope": 4, "*": 3},
    "thorough": {"file-scope": 5, "*": 4},
}


def classify(P, Lex, tpl):
    """one path of the real parser"""
    eng = E.cur()
    parser = P.CParser(lexer=Lex)
    try:
        ast = parser.parse("", FILENAME)
    except P.ParseError as e:
        msg = str(e)
        if LOC_RE.match(msg):
            return {"cls": "ParseError"}
        sig = tokharness.exc_signature(e)
        toks = tokharness.witness_tokens(tpl, eng)
        return {
            "cls": "ParseError-without-location",
            "viol": {"sig": "badloc:" + sig["sig"], "kind": "badloc", "toks": toks, "msg": checklib.fill_placeholders(msg, toks)},
        }
    except RecursionError:
        return {"cls": "RecursionError"}
    except E.HarnessError:
        raise
    except Exception as e:
        sig = tokharness.exc_signature(e)
        toks = tokharness.witness_tokens(tpl, eng)
        return {"cls": "OTHER:" + sig["type"], "viol": {"sig": sig["sig"], "kind": "exc", "exc": sig, "toks": toks}}
    if type(ast).__name__ != "FileAST":
        toks = tokharness.witness_tokens(tpl, eng)
        return {"cls": "not-FileAST", "viol": {"sig": "returned:" + type(ast).__name__, "kind": "ret", "toks": toks}}
    rec = {"cls": "accept", "witness": {"accept": True}}
    return rec


def replay_violation(rp, v):
    """True if the violation reproduces on the untouched package through the real lexer"""
    text = toklex.render(v["toks"])
    r = rp.ask(op="parse", text=text, filename=FILENAME)
    v["text"] = text
    v["replay_outcome"] = r
    if v["kind"] == "exc":
        return r.get("outcome") == "exc" and r["exc"]["type"] == v["exc"]["type"]
    if v["kind"] == "badloc":
        return r.get("outcome") == "ParseError" and not re.match(r"^" + re.escape(FILENAME) + r"(:\d+(:\d+)?)?: ", r["msg"])
    if v["kind"] == "ret":
        return False
    return False


def replay_body(v):
    text = v["text"]
    if v["kind"] == "exc":
        return (
            f"from pycparser.c_parser import CParser, ParseError\ntext = {text!r}\n"
            "try:\n    CParser().parse(text, 'f.c')\nexcept ParseError as e:\n    print('ParseError (allowed):', e); sys.exit(0)\n"
            "except RecursionError:\n    sys.exit(0)\n"
            "except Exception as e:\n    print('VIOLATION reproduced:', type(e).__name__, e); sys.exit(1)\n"
            "print('accepted'); sys.exit(0)\n"
        )
    return (
        f"import re\nfrom pycparser.c_parser import CParser, ParseError\ntext = {text!r}\n"
        "try:\n    CParser().parse(text, 'f.c')\nexcept ParseError as e:\n"
        "    if not re.match(r'^f\\.c(:\\d+(:\\d+)?)?: ', str(e)):\n        print('VIOLATION reproduced: message has no location:', e); sys.exit(1)\n"
        "sys.exit(0)\n"
    )


def run_tok(report, findings, rp):
    P = symparser.load()
    n_valid = checklib.validate_parser_translation(P)
    report.notes.append(f"translator validation: {n_valid} repository test inputs, rewritten parser == untouched parser")
    alpha = toklex.full_alphabet()
    bounds = BOUNDS[checklib.tier()]
    report.bounds["token_level"] = {
        "alphabet_symbols": len(alpha),
        "alphabet": "every keyword and punctuator of the live lexer tables + fixed-spelling literals/identifiers/pp tokens",
        "max_holes": bounds,
        "contexts": {c.name: " ".join(c.prefix) + " <holes> " + " ".join(c.suffix) for c in CONTEXTS},
        "outside": "sequences longer than the bound; spellings not in the alphabet (literal contents are covered at character level)",
    }
    candidates = {}
    # degenerate and rare forms, every combination (multi-token hole classes): members / parameters / declarations that
    # consist of specifiers only, empty bodies, lone designators, static assertions without arguments ...
    from checks import c03
    from symx.tokharness import PatCtx

    deg_cls = {
        "?Z": ["_Alignas ( 1 ) ;", "const ;", ";", ": 1 ;", "T ;", "int ;", "_Atomic ( T ) ;", "static int x ;", "_Alignas ( 1 ) const ;", "int x", "struct { } ;",
               "enum { } ;", "_Static_assert ( ) ;", "_Static_assert ( 1 , ) ;", "int x : ;", "int x , ;", "_Atomic ( ) x ;", "_Alignas ( ) int x ;", "struct ;", "enum y ;"],
        "?Y": ["", "int", "T", "_Alignas ( 1 )", "const", "register", "...", "int x ,", ", int", "void , void", "_Atomic ( )", "int ( )", "( )", "[ ]", "* ", "struct { }", "enum { y }"],
        "?I": ["", ",", ". x", "[ 1 ]", ". x =", "[ 1 ] =", "[ ] = 1", ". = 1", "= 1", "{ }", "{ , }", "1 , , 07", "[ 1 ... 07 ] = 1"],
        "?S": ["", ";", "case :", "case 1", "default", "default : }", "x :", "T :", ": ;", "else ;", "if ( )", "for ( )", "for ( ; )", "for ( ; ; ; )", "while ( )", "do ;", "do while ( 1 ) ;", "goto ;", "goto 1 ;", "return return ;", "break 1 ;", "switch ( )", "_Static_assert ( 1 )"],
    }
    deg = [
        ("struct-members", ["typedef", "int", "T", ";"], "struct y { ?Z ?Z } ;", []),
        ("file-scope", ["typedef", "int", "T", ";"], "?Z ?Z", []),
        ("block", ["typedef", "int", "T", ";", "void", "y", "(", "void", ")", "{"], "?Z ?S ?Z ?S", ["}"]),
        ("parameters", ["typedef", "int", "T", ";"], "void y ( ?Y , ?Y ) ; void x ( ?Y ) { } int ( * x ) ( ?Y ) ;", []),
        ("initializers", ["typedef", "int", "T", ";"], "int x [ 1 ] = { ?I , ?I } ; int y = ( T ) { ?I } ;", []),
        ("switch-body", ["typedef", "int", "T", ";", "void", "y", "(", "void", ")", "{", "switch", "(", "x", ")", "{"], "?S ?S ?S", ["}", "}"]),
    ]
    deg_ctxs = [PatCtx("degenerate:" + name, pre, pat, suf, deg_cls) for name, pre, pat, suf in deg] + [c for c, _ in c03.rare_contexts()]
    report.bounds["token_level"]["degenerate_and_rare_patterns"] = {c.name: " ".join(c.prefix + c.pattern + c.suffix) for c in deg_ctxs}
    report.bounds["token_level"]["degenerate_classes"] = deg_cls
    for ctx in CONTEXTS + deg_ctxs:
        nmax = 0 if isinstance(ctx, PatCtx) else bounds.get(ctx.name, bounds["*"])
        for n in range(nmax if isinstance(ctx, PatCtx) else 0, nmax + 1):
            tpl = ctx.template(alpha, n)
            Lex = toklex.make_lexer_class(tpl)

            def make_engine(tpl=tpl):
                eng = E.Engine()
                tpl.declare(eng)
                return eng

            def once(tpl=tpl, Lex=Lex):
                return classify(P, Lex, tpl)

            lvl = tokharness.split_level(tpl, ctx, n) if not isinstance(ctx, PatCtx) else len(ctx.prefix) + 1
            job = E.Job(f"{ctx.name}/{n}", make_engine, once, split=("input", lvl) if lvl else None, max_viol=30)
            if n == min(2, nmax) and not isinstance(ctx, PatCtx):
                report.functions |= tokharness.sample_census(job)
            res = E.run_job(job, workers=None if (n >= 3 or isinstance(ctx, PatCtx)) else 1)
            report.add_run(job.name, res, describe=tpl.describe())
            for v in res.violations:
                candidates.setdefault(v["sig"], []).append(v)
            if res.samples == [] and n == nmax:
                pass
    # replay: up to 3 witnesses per signature, shortest first
    for sig, vs in sorted(candidates.items()):
        vs.sort(key=lambda v: (len(v["toks"]), str(v["toks"])))
        reproduced = None
        for v in vs[:3]:
            report.replayed += 1
            if replay_violation(rp, v):
                reproduced = v
                break
        if reproduced is None:
            report.unreproduced.append({"sig": sig, "text": vs[0].get("text"), "outcome": vs[0].get("replay_outcome")})
            continue
        v = reproduced
        what = f"{sig} on input {v['text']!r} ({len(vs)} path classes)"
        kf = findings.match(sig)
        if kf:
            report.known_hits[sig] = f"{kf['what']} [{sig}]"
            continue
        path = checklib.write_replay(PID, what, replay_body(v))
        report.violations.append({"sig": sig, "what": what, "replay": path})
    report.samples.append({"accepted_example": "int x ;", "note": "see runs[] for per-template path counts"})


def main():
    report = checklib.Report(PID)
    findings = checklib.Findings(PID)
    rp = checklib.Replayer()
    report.assumptions += [
        "tokens are injected through the public CParser(lexer=...) parameter by a lexer honouring the CLexer callback protocol (brace callbacks at lex time); counterexamples are replayed through the real lexer",
        "the in-memory operator rewrite (in / not in / _TABLE[x]) is transparent: validated on the repository's own test inputs on every run",
        "CPython 3.11 runs the symbolic execution, replays run under the repository's interpreter",
    ]
    try:
        run_tok(report, findings, rp)
        try:
            from checks import c06_chr

            c06_chr.run(report, findings, rp)
        except ImportError:
            report.notes.append("character-level part not built")
    finally:
        rp.close()
    return report.finish(findings, required_witnesses=["accept"])


if __name__ == "__main__":
    checklib.run_main(main)
