"""C11 - coordinates point at the real source location of every construct and error.

symx-tok with SYMBOLIC coordinates: token i carries free integers line_i, col_i
and the lexer's file name is the tag F_i while token i is the most recently
lexed one (F_i != F_{i+1} is allowed anywhere: that is what a linemarker between
two tokens looks like to the parser).  The real parser runs over the templates of
the expression / declaration / statement checks; on every accepted path, for
every node of the AST:
  (1) coord is present for declarations, statements, identifiers, constants and
      operators;
  (2) its three components are (F_j, line_j, col_j) of ONE token j - z3 proves
      coord.line == line_j and coord.column == col_j for ALL values, the file tag
      must be F_j of the same j (not of a later, looked-ahead token);
  (3) for ID, Constant, declared names (TypeDecl.declname), enumerators, labels, j is
      the token that spells the node's name/value;
  (4) j lies inside the construct, in the form of three rules over coordinate tokens
      (symx/coordrules.py): a node's token is not after all of its parts' tokens; parts
      of expressions and statements are not before their parent's token; items of
      statement / declaration / argument lists are in source order.
On rejecting paths the 'file:line:col' prefix of the message must be one token's
triple.  Also (used by C17): no branch of the parser may depend on a coordinate
and no coordinate may leak into a non-coord slot.
Character level: the exact position of illegal characters is C09's obligation (f).
"""
from __future__ import annotations

import re

import z3

from symx import engine as E
from symx import checklib, toklex, symparser, tokharness, diffharness as D
from symx.proxies import SymStr, SymInt, FileTag
from symx import coordrules
from symx.tokharness import Ctx, PatCtx
from checks import c02, c03, c05

PID = "C11"
MUST_HAVE = {"Decl", "Typedef", "FuncDef", "Compound", "If", "While", "DoWhile", "For", "Switch", "Case", "Default", "Label", "Goto", "Break", "Continue",
             "Return", "EmptyStatement", "Pragma", "StaticAssert", "ID", "Constant", "UnaryOp", "BinaryOp", "Assignment", "TernaryOp", "Cast", "FuncCall",
             "ArrayRef", "StructRef", "Enumerator", "Struct", "Union", "Enum", "ParamList", "PtrDecl", "ArrayDecl", "FuncDecl", "IdentifierType"}
OWN_TOKEN = {"ID": "name", "Constant": "value", "Enumerator": "name", "Label": "name", "TypeDecl": "declname"}


def tok_index_of(v):
    if isinstance(v, SymStr):
        return v.i
    return getattr(v, "tok_index", None)


def is_node(x):
    return hasattr(x, "children") and hasattr(type(x), "__slots__") and hasattr(x, "coord")


def leaves_of(node, acc):
    """token indices spelled in the subtree (names, values, operator spellings, qualifier lists)"""
    for name in type(node).__slots__:
        if name in ("coord", "__weakref__"):
            continue
        v = getattr(node, name)
        _collect(v, acc)
    return acc


def _collect(v, acc):
    if v is None:
        return
    if is_node(v):
        leaves_of(v, acc)
    elif isinstance(v, (list, tuple)):
        for x in v:
            _collect(x, acc)
    else:
        i = tok_index_of(v)
        if i is not None:
            acc.add(i)


def child_nodes(node):
    out = []
    for name in type(node).__slots__:
        if name in ("coord", "__weakref__"):
            continue
        v = getattr(node, name)
        if is_node(v):
            out.append(v)
        elif isinstance(v, (list, tuple)):
            out += [x for x in v if is_node(x)]
    return out


class CoordCheck:
    def __init__(self, tpl, eng):
        self.tpl = tpl
        self.eng = eng
        self.problems = []
        self.line_of = {str(v): i for i, v in enumerate(tpl.lines)}
        self.col_of = {str(v): i for i, v in enumerate(tpl.cols)}

    def token_of(self, coord, what):
        """index j with coord == (F_j, line_j, col_j), or None after recording a problem"""
        line, col, f = coord.line, coord.column, coord.file
        if not isinstance(line, SymInt) or not isinstance(col, SymInt):
            self.problems.append((what, "line/column is not a token's line/column (" + str(line) + ":" + str(col) + ")"))
            return None
        jl = self.line_of.get(str(line.e))
        if jl is None:
            for j, lv in enumerate(self.tpl.lines):
                if self.eng.prove(line.e == lv) == "proved":
                    jl = j
                    break
        if jl is None:
            self.problems.append((what, "line is not the line of any token for all layouts"))
            return None
        if not (str(col.e) == str(self.tpl.cols[jl]) or self.eng.prove(col.e == self.tpl.cols[jl]) == "proved"):
            self.problems.append((what, f"column is not the column of the token that gives the line (token #{jl})"))
            return None
        if not isinstance(f, FileTag):
            self.problems.append((what, f"file component {f!s} is not the lexer's file name at any token"))
            return None
        if f.i != jl:
            self.problems.append((what, f"file name is the one in effect at token #{f.i}, line/column are those of token #{jl}: a linemarker between them gives the node the wrong file"))
            return None
        return jl

    def visit(self, node):
        """checks (1)-(3) on the node, returns its coordinate tree for the span rules (4)"""
        cls = type(node).__name__
        coord = node.coord
        j = None
        if coord is None:
            if cls in MUST_HAVE:
                self.problems.append((cls, "node has no coordinate"))
        else:
            j = self.token_of(coord, cls)
            if j is not None:
                own = OWN_TOKEN.get(cls)
                if own is not None:
                    oi = tok_index_of(getattr(node, own))
                    if oi is not None and oi != j:
                        self.problems.append((cls, f"coordinate is that of token #{j}, the token spelling its {own} is #{oi}"))
        kids = []
        for name in type(node).__slots__:
            if name in ("coord", "__weakref__"):
                continue
            v = getattr(node, name)
            if is_node(v):
                kids.append((name, self.visit(v), False))
            elif isinstance(v, (list, tuple)):
                kids += [(name, self.visit(x), True) for x in v if is_node(x)]
        return (cls, j, kids)


NUM = re.compile(r"#\d+")
ERR_RE = re.compile("^\x01F(\\w*?)(\\d+)\x02(?::\x01I(\\w*?)line(\\d+)\x02(?::\x01I(\\w*?)col(\\d+)\x02)?)?: ")


def check_error_message(msg, ntoks):
    m = ERR_RE.match(msg)
    if not m:
        if re.match("^[^:\x01]*: ", msg):
            return None  # plain file name: the text was given without tokens (cannot happen with tags) - tolerated
        return "error message does not start with a token's file:line:column"
    f, l, c = m.group(2), m.group(4), m.group(6)
    if l is not None and c is not None and l != c:
        return f"error location mixes line of token #{l} with column of token #{c}"
    if l is not None and f != l:
        return f"error location takes the file name in effect at token #{f} but line/column of token #{l}"
    return None


def contexts(tier):
    q = tier == "quick"
    out = []
    for c, n in c02.contexts(tier) + c03.contexts(tier) + c05.contexts(tier):
        if isinstance(c, PatCtx):
            if "+pragma" in c.name and not c.name.split("@")[0].endswith(("0", "5", "8", "9", "16")):
                continue
            out.append((PatCtx("co:" + c.name, c.prefix, " ".join(c.pattern), c.suffix, c.classes), 0))
        else:
            out.append((Ctx("co:" + c.name, c.prefix, c.suffix, domain=c.domain), max(1, n - 1) if q else n))
    # several parenthesised groups / type names in one expression: coordinates of different '(' tokens may coincide
    cls = {"?V": ["x", "1"], "?O": ["+", "*", ","]}
    for i, pat in enumerate(["x = ( T ) ?V ?O ( ?V ) ?O sizeof ( T ) ?O ( ?V ) ;", "x = sizeof ( T ) ?O ( ?V ) ?O ( T ) { ?V } ?O ( ?V ) ;", "x = ( T ) ?V ?O ( int ) ?V ?O ( char ) ( T ) ?V ;", "x = sizeof ( T ) ?O sizeof ( int ) ?O ( T ) { ?V } . x ?O ( int ) { ?V } ;", "if ( ( T ) ?V ) ( ?V ) ; else ( ( ?V ) ) ;",
                             # operators whose coordinate comes from a compound-literal operand, designated or not
                             "- ( T ) { . x = ?V } . x ?O ( T ) { ?V } ;", "( T ) { [ 1 ] = ?V , 1 } [ 1 ] ++ ; return ( T ) { . x = ?V } . x + 1 ;"]):
        out.append((PatCtx(f"co:parens{i}:{pat}", c05.FN, pat, ["}"], cls), 0))
    return out


def main():
    report = checklib.Report(PID)
    findings = checklib.Findings(PID)
    report.assumptions += [
        "per-token line/column are free z3 integers, the file name is a per-token tag: every layout and every placement of linemarkers between tokens is covered by one path",
        "span containment is checked in the weak form (4) of the module docstring; exact spans would need a second parser that records them",
        "exact columns/lines of tokens themselves are C09's subject; illegal-character positions are C09's obligation (f)",
    ]
    P = symparser.load()
    nval = checklib.validate_parser_translation(P)
    report.notes.append(f"translator validation: {nval} repository test inputs")
    alpha = toklex.full_alphabet()

    def path_fn(Lex, tpl):
        eng = E.cur()
        eng.tainted_decisions = 0
        impl = D.run_parser(P, Lex, tpl)
        rec = {"cls": impl[0], "witness": {impl[0]: True}}
        probs = []
        if impl[0] == "ast":
            cc = CoordCheck(tpl, eng)
            tree = cc.visit(impl[1])
            cc.problems += coordrules.check(tree)
            probs = [("coord:" + cls + ":" + NUM.sub("#", what)[:70], f"{cls}: {what}") for cls, what in cc.problems]
        elif impl[0] == "ParseError":
            p = check_error_message(impl[1], tpl.n)
            if p:
                probs.append(("errloc:" + NUM.sub("#", p)[:60], p))
        if eng.tainted_decisions:
            # the parser compared coordinates: parse the same tokens again under the canonical layout
            # (distinct concrete positions) inside this path and require the same result, coordinates aside
            rec["count"] = {"paths_with_coordinate_dependent_decisions": 1}
            Lex2 = toklex.make_lexer_class(tpl, sym_coords=False, file_tags=False)
            impl2 = D.run_parser(P, Lex2, tpl)
            d = None
            if impl2[0] != impl[0]:
                d = f"{impl[0]} under this layout, {impl2[0]} with every token at a distinct position"
            elif impl[0] == "ast":
                d = tokharness.ast_diff(impl[1], impl2[1], coords=False)
            if d:
                probs.append(("layout-dependent-result", f"the result depends on token coordinates (the parser compared {eng.path_notes[:2]}): {d}"))
        if probs:
            m = eng.model()
            toks = tpl.witness(m)
            seen = set()
            rec["viol"] = []
            xy = tpl.coords_witness(m)
            fempty = m.eval(z3.Int("fempty_idx"), model_completion=True).as_long()
            fempty = fempty if any("fempty_idx" in str(a) for a in eng.solver.assertions()) else -1
            for sig, what in probs:
                if sig in seen:
                    continue
                seen.add(sig)
                rec["viol"].append({"sig": sig, "what": what, "toks": toks, "kind": impl[0], "xy": xy, "fempty": fempty})
            rec["cls"] += "-COORD"
        return rec

    ctxs = contexts(checklib.tier())
    bounds = {c.name: n for c, n in ctxs}
    report.bounds["contexts"] = {c.name: (n if not isinstance(c, PatCtx) else "pattern") for c, n in ctxs if "+pragma" not in c.name}
    cands = tokharness.run_contexts(report, alpha, [c for c, _ in ctxs], lambda c: bounds[c.name], path_fn, sym_coords=True, file_tags=True, parallel_from=4, job_kw={"max_viol": 60})
    pr = [r for r in report.runs if "+pragma" in r["name"]]
    report.runs = [r for r in report.runs if "+pragma" not in r["name"]]
    report.extra["pragma_insertion_templates"] = {"templates": len(pr), "paths": sum(r["paths"] for r in pr)}
    rp = checklib.Replayer()
    try:
        for sig, vs in sorted(cands.items()):
            # witnesses in which two tokens share a (line, column) first: those are the layouts a coordinate-dependent branch needs
            vs.sort(key=lambda v: (len(set(v["xy"])) == len(v["xy"]), len(v["toks"]), str(v["toks"])))
            good = None
            for v in vs[: (10 if sig == "layout-dependent-result" else 3)]:
                report.replayed += 1
                ok, detail = replay(rp, v)
                v["detail"] = detail
                if ok:
                    good = v
                    break
            if good is None:
                report.unreproduced.append({"sig": sig, "what": vs[0]["what"], "text": vs[0].get("text"), "detail": str(vs[0].get("detail"))[:300]})
                continue
            what = f"[{sig}] {good['what']} -- input (one token per line, a linemarker before every token) {toklex.render(good['toks']).strip()!r}: {good['detail']}"
            kf = findings.match(sig, toklex.render(good["toks"]))
            if kf:
                report.known_hits[kf.get("id", sig)] = kf["what"]
                continue
            body = (good["layout_code"] + "print(RESULT)\nsys.exit(0 if RESULT['same'] else 1)\n") if sig == "layout-dependent-result" else (good["replay_code"] + "print(RESULT)\nsys.exit(1 if RESULT['bad'] else 0)\n")
            report.violations.append({"sig": sig, "what": what, "replay": checklib.write_replay(PID, what, body)})
        # errors raised by the lexer in the middle of the parser's work: a stray character at every position of seven
        # accepted programs, real lexer + real parser; the ParseError must name the character's own file:line:column
        from checks import c18_chr

        c18_chr.run_injection(report, findings, rp, pid=PID, locate=True)
        report.functions |= {"pycparser/c_lexer.py:CLexer._error (sre model) -> pycparser/c_parser.py:CParser._lex_error_func/_parse_error"}
    finally:
        rp.close()
    return report.finish(findings, required_witnesses=["ast", "ParseError", "injection-rejected"])


def layout(toks):
    """one token per line, each preceded by a linemarker naming its own file and line:
    token i is at file 'f<i>.c', line 100+i, column 3+i"""
    out = []
    i = 0
    k = 0
    while i < len(toks):
        t, v = toks[i]
        out.append(f'# {100 + k} "f{k}.c"')
        if t == "PPPRAGMA":
            s = " " * (2 + k) + "#pragma"
            if i + 1 < len(toks) and toks[i + 1][0] == "PPPRAGMASTR":
                # the pragma text is a second token on the same line
                s = " " * (2 + k) + "#pragma " + toks[i + 1][1]
                i += 1
                k += 1
            out.append(s)
        else:
            out.append(" " * (2 + k) + v)
        i += 1
        k += 1
    return "\n".join(out) + "\n"


REPLAY_CODE = '''
import sys
sys.path.insert(0, "/verif")
from symx import coordrules
from pycparser.c_parser import CParser, ParseError
from pycparser import c_ast
import re
text = {text!r}
XY = {xy!r}      # (line, column) of token k; token k is the one lexed under file name f<k>.c
MUST_HAVE = {must!r}
EMPTY = {empty!r}  # index of the token lexed under the empty file name, or -1
bad = []
lines = text.split("\\n")
def tok_of(c):
    if str(c.file) == "" and EMPTY >= 0:
        return EMPTY
    m = re.match(r"f(\\d+)\\.c$", str(c.file))
    return int(m.group(1)) if m else None
def build(n):
    cls = type(n).__name__
    c = n.coord
    j = None
    if c is None:
        if cls in MUST_HAVE: bad.append([cls, "no coordinate"])
    else:
        k = tok_of(c)
        if cls == "Pragma" and k is not None:
            j = k
        elif k is None or k >= len(XY) or c.line != XY[k][0] or c.column != XY[k][1]:
            bad.append([cls, "not one token's file:line:column", str(c)])
        else:
            j = k
    kids = []
    for name in n.__slots__:
        if name in ("coord", "__weakref__"): continue
        v = getattr(n, name)
        if isinstance(v, c_ast.Node): kids.append((name, build(v), False))
        elif isinstance(v, list): kids += [(name, build(x), True) for x in v if isinstance(x, c_ast.Node)]
    return (cls, j, kids)
try:
    ast = CParser().parse(text, "start.c")
    tree = build(ast)
    bad += [[c, w] for c, w in coordrules.check(tree)]
    if "#pragma" not in text:
        def own(n):
            f = {{"ID": "name", "Constant": "value", "Enumerator": "name", "Label": "name", "TypeDecl": "declname"}}.get(type(n).__name__)
            if f and getattr(n, f) is not None and n.coord is not None and tok_of(n.coord) is not None:
                k = tok_of(n.coord)
                spelled = lines[2 * k + 1].strip() if 2 * k + 1 < len(lines) else ""
                if not str(getattr(n, f)).startswith(spelled) and not spelled.startswith(str(getattr(n, f))[:1]):
                    bad.append([type(n).__name__, "coordinate is not that of the token spelling it", str(n.coord)])
            for name in n.__slots__:
                if name in ("coord", "__weakref__"): continue
                v = getattr(n, name)
                for x in (v if isinstance(v, list) else [v]):
                    if isinstance(x, c_ast.Node): own(x)
        own(ast)
    RESULT = {{"outcome": "ast", "bad": bad}}
except ParseError as e:
    msg = str(e)
    if EMPTY >= 0 and msg.startswith(":"):
        msg = "f%d.c" % EMPTY + msg  # located under the empty file name
    m = re.match(r"^f(\\d+)\\.c:(\\d+):(\\d+): ", msg)
    ok = bool(m) and int(m.group(1)) < len(XY) and [int(m.group(2)), int(m.group(3))] == XY[int(m.group(1))]
    RESULT = {{"outcome": "ParseError", "msg": str(e), "bad": [] if ok or re.match(r"^f\\d+\\.c: ", str(e)) else [["ParseError", str(e)]]}}
'''
REPLAY = REPLAY_CODE + "print(RESULT)\nsys.exit(1 if RESULT['bad'] else 0)\n"


LAYOUT_DIFF = '''
import sys, io
from pycparser.c_parser import CParser
def run(t):
    try:
        a = CParser().parse(t, "start.c")
    except Exception as e:
        return ("error", type(e).__name__)
    b = io.StringIO(); a.show(buf=b, attrnames=True, nodenames=True); return ("ast", b.getvalue())
a = run({plain!r}); b = run({laid!r})
RESULT = {{"same": a == b, "plain": a[0], "laid_out": b[0]}}
'''


def layout_xy(toks, xy, fempty=-1):
    """every token on its own line at the solver's column, preceded by a linemarker giving the solver's line
    (and the file name f<i>.c, or the empty file name for token `fempty`)"""
    out = []
    i = 0
    while i < len(toks):
        t, v = toks[i]
        line, col = xy[i]
        out.append(f'# {line} ""' if i == fempty else f'# {line} "f{i}.c"')
        if t == "PPPRAGMA":
            s = "#pragma"
            if i + 1 < len(toks) and toks[i + 1][0] == "PPPRAGMASTR":
                s += " " + toks[i + 1][1]
                i += 1
            out.append(s)
        else:
            out.append(" " * (col - 1) + v)
        i += 1
    return "\n".join(out) + "\n"


def replay(rp, v):
    if v["sig"] == "layout-dependent-result":
        plain = toklex.render(v["toks"])
        laid = layout_xy(v["toks"], v["xy"])
        v["text"] = laid
        v["layout_code"] = LAYOUT_DIFF.format(plain=plain, laid=laid)
        r = rp.ask(op="exec", code=v["layout_code"])
        if not isinstance(r, dict) or "same" not in r:
            return False, r
        return (not r["same"]), f"parsing the same tokens under this layout gives a different result than on one line: {r}"
    text = layout_xy(v["toks"], v["xy"], v.get("fempty", -1))
    v["text"] = text
    v["replay_code"] = REPLAY_CODE.format(text=text, must=sorted(MUST_HAVE), xy=[list(p) for p in v["xy"]], empty=v.get("fempty", -1))
    r = rp.ask(op="exec", code=v["replay_code"])
    if not isinstance(r, dict) or "bad" not in r:
        return False, r
    return bool(r["bad"]), r["bad"][:3]


if __name__ == "__main__":
    checklib.run_main(main)
