"""C01 - every valid C99 / supported-C11 translation unit is accepted.

Product symbolic execution: on every path the real parser and the by-the-book
reference front end refc (ISO 9899:1999 Annex A.2 with the typedef-name rule and
the syntactic constraints -pedantic-errors enforces) run on the same symbolic
tokens.  Assertion: refc accepts  =>  the real parser returns a FileAST.
A violating path gives a concrete token sequence; it is rendered to text,
parsed by the untouched package through the real lexer, and - as supporting
evidence only - shown to `gcc -std=c11 -fsyntax-only -pedantic-errors` inside a
preamble that declares the alphabet's names.
"""
from __future__ import annotations

import os
import subprocess
import tempfile

from symx import checklib, diffcheck
from symx.tokharness import Ctx, PatCtx
from checks import c02, c03, c05

PID = "C01"
PRE = ["typedef", "int", "T", ";"]
FN = PRE + ["void", "y", "(", "void", ")", "{"]
NO_TYPEDEF = None  # holes range over the whole alphabet


def contexts(tier):
    q = tier == "quick"
    out = [
        (Ctx("file-scope", PRE), 3 if q else 4),
        (Ctx("function-body", FN, ["}"]), 3 if q else 4),
        (Ctx("initializer", PRE + ["int", "x", "="], [";"]), 3 if q else 4),
        (Ctx("array-bound", PRE + ["int", "x", "["], ["]", ";"]), 3 if q else 4),
        (Ctx("parameter-array-bound", PRE + ["void", "y", "(", "int", "x", "["], ["]", ")", ";"]), 3 if q else 4),
        (Ctx("struct-body", PRE + ["struct", "y", "{"], ["}", ";"]), 3 if q else 4),
        (Ctx("parameter-list", PRE + ["void", "y", "("], [")", ";"]), 3 if q else 4),
        (Ctx("for-header", FN + ["for", "("], [")", ";", "}"]), 3 if q else 4),
        # two or three holes around each C99/C11 construct whose neighbours matter
        (Ctx("after-compound-literal", FN + ["x", "=", "(", "int", ")", "{", "1", "}"], [";", "}"]), 2 if q else 3),
        (Ctx("after-sizeof", FN + ["x", "=", "sizeof"], [";", "}"]), 3 if q else 4),
        (Ctx("after-designator", PRE + ["int", "x", "[", "1", "]", "=", "{", "[", "1", "]"], ["}", ";"]), 2 if q else 3),
        (Ctx("after-_Atomic", PRE + ["_Atomic"], ["x", ";"]), 3 if q else 4),
        (Ctx("inside-_Alignas", PRE + ["_Alignas", "("], [")", "int", "x", ";"]), 2 if q else 3),
        (Ctx("enum-after-enumerator", PRE + ["enum", "y", "{", "x"], ["}", ";"]), 2 if q else 3),
        (Ctx("after-static-in-bound", PRE + ["void", "y", "(", "int", "x", "[", "static"], ["]", ")", ";"]), 2 if q else 3),
        (Ctx("label-position", FN, [":", ";", "}"]), 2),
        (Ctx("after-case", FN + ["switch", "(", "x", ")", "{", "case"], ["}", "}"]), 3),
    ]
    # the reduced-alphabet contexts of the tree checks: deeper, and they must be accepted too
    if os.environ.get("C01_NO_DEEP"):
        return out
    for c, n in c02.contexts(tier) + c05.contexts(tier) + c03.contexts(tier):
        if isinstance(c, PatCtx):
            if "+pragma" in c.name and q:
                continue
            out.append((PatCtx("deep:" + c.name, c.prefix, " ".join(c.pattern), c.suffix, c.classes), 0))
        else:
            out.append((Ctx("deep:" + c.name, c.prefix, c.suffix, domain=c.domain), n - 1 if q else n))
    return out


def gcc_opinion(text):
    """supporting evidence only: does gcc accept the witness syntactically? (it also type-checks)"""
    pre = "typedef int T_;\n"
    try:
        with tempfile.NamedTemporaryFile("w", suffix=".c", delete=False) as f:
            f.write(text)
            path = f.name
        r = subprocess.run(["gcc", "-std=c11", "-fsyntax-only", "-pedantic-errors", "-w", path], capture_output=True, text=True, timeout=20)
        os.unlink(path)
        return {"exit": r.returncode, "stderr": r.stderr.strip().splitlines()[:3]}
    except Exception as e:
        return {"error": repr(e)}


def main():
    report = checklib.Report(PID)
    findings = checklib.Findings(PID)
    report.assumptions += [
        "tokens injected through CParser(lexer=...); identifiers are classified by the parser's own scope table (IDENT symbols), T is a typedef name through the fixed prefix; holes may contain 'typedef' too",
        "refc is the oracle of validity: transcribed from ISO 9899:1999 Annex A.2 plus the supported C11 productions; it rejects what -pedantic-errors rejects for syntactic reasons (implicit int, empty struct/initializer/translation unit, declarations that declare nothing, illegal type-specifier sets); validated each run on the repository's accepted inputs",
        "gcc's verdict on witnesses is recorded as supporting evidence only (gcc also type-checks)",
    ]
    alpha, cands = diffcheck.run(PID, contexts(checklib.tier()), ("accept",), report, findings, parallel_from=3)
    diffcheck.settle(PID, alpha, cands, report, findings, ("rejected-valid",))
    ops = []
    for v in report.violations[:10]:
        pass
    return report.finish(findings, required_witnesses=["accept/accept", "reject/reject", "accept/reject"])


if __name__ == "__main__":
    checklib.run_main(main)
