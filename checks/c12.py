"""C12 - a parser's result depends only on (text, filename), never on its history.

Product execution (symx-tok): ONE CParser instance parses a symbolic history
H (token template `h`, may succeed, may fail at an arbitrary point, may leave
scopes open or typedef names behind), then the symbolic input T (template `k`);
a FRESH instance parses T on the same path.  Assertion on every feasible path:
the two outcomes coincide (same ParseError message / structurally equal AST
incl. coordinates / same exception class) and the AST of the second call shares
no node object with the AST of the first.  Because H is symbolic, state the
harness does not know about (a new cache attribute, a memo) is exercised too.
Twin runs: H = T (parse the same text twice).  On accepted paths the solver's
witness is also pushed through a reused CGenerator (concrete; see DESIGN C12).
Lexer reuse (CLexer.input) is decided at character level in checks/c12_chr.
"""
from __future__ import annotations

from symx import engine as E
from symx import toklex, symparser, checklib, tokharness, loader
from symx.tokharness import Ctx

PID = "C12"

SIGMA_H = ["typedef", "int", "x", "T", ";", "{", "}", "(", ")", "=", "*", ",", "struct", "IDENT:y", "1", "void",
           "PPPRAGMA:pragma", "PPPRAGMASTR:pack(1)", "sizeof", "enum", "[", "]"]
SIGMA_T = ["int", "x", "T", ";", "(", ")", "*", "=", "{", "}", "typedef", "1", ",", "sizeof", "IDENT:y"]

# history contexts: prefix + holes (no suffix: histories may stop anywhere)
HIST = [
    Ctx("h-file", [], domain=SIGMA_H),
    Ctx("h-after-typedef", ["typedef", "int", "T", ";"], domain=SIGMA_H),
    Ctx("h-in-function", ["typedef", "int", "x", ";", "void", "y", "(", "void", ")", "{"], domain=SIGMA_H),
    Ctx("h-typedef-last", ["typedef", "int", "T", ";", "T"], domain=SIGMA_H),
    # histories that end (fail) several braces deep, with parameters and block-scope typedefs in the open scopes
    Ctx("h-deep3", ["void", "y", "(", "int", "T", ")", "{", "typedef", "int", "x", ";", "{", "{"], domain=SIGMA_H),
    Ctx("h-deep5", ["typedef", "int", "T", ";", "void", "y", "(", "void", ")", "{", "{", "int", "T", ";", "{", "typedef", "int", "x", ";", "{", "{"], domain=SIGMA_H),
]
SECOND = [
    Ctx("t-file", [], domain=SIGMA_T),
    Ctx("t-function", ["void", "y", "(", "void", ")", "{"], ["}"], domain=SIGMA_T),
    Ctx("t-init", ["int", "y", "="], [";"], domain=SIGMA_T),
]
BOUNDS = {"quick": (2, 3), "thorough": (3, 4)}  # (history holes, input holes)


def outcome(P, parser, tpl, filename):
    try:
        ast = parser.parse(tpl, filename)
    except P.ParseError as e:
        return ("ParseError", str(e))
    except RecursionError:
        return ("RecursionError", "")
    except E.HarnessError:
        raise
    except Exception as e:
        return ("exc", type(e).__name__)
    return ("ast", ast)


def compare(o1, o2):
    if o1[0] != o2[0]:
        return f"outcome {o1[0]} vs {o2[0]}: {str(o1[1])[:80]!r} vs {str(o2[1])[:80]!r}"
    if o1[0] == "ast":
        return tokharness.ast_diff(o1[1], o2[1], coords=True)
    if o1[1] != o2[1]:
        return f"{o1[0]} differs: {o1[1]!r} vs {o2[1]!r}"
    return None


def make_path_fn(P, tplH, LexH, tplT, same):
    def path_fn():
        eng = E.cur()
        reused = P.CParser(lexer=LexH)
        first = outcome(P, reused, tplT if same else tplH, "a.c")
        second = outcome(P, reused, tplT, "b.c")
        fresh = outcome(P, P.CParser(lexer=LexH), tplT, "b.c")
        d = compare(second, fresh)
        if d is None and first[0] == "ast" and second[0] == "ast":
            if tokharness.node_ids(first[1]) & tokharness.node_ids(second[1]):
                d = "ASTs of two parse() calls share node objects"
        rec = {"cls": f"{first[0]}->{second[0]}"}
        rec["witness"] = {("history-" + first[0]): True, ("second-" + second[0]): True}
        if d:
            m = eng.model()
            if m is None:
                raise E.HarnessError("no model")
            rec["viol"] = {
                "sig": "history-dependent:" + d.split(":")[0][:60],
                "diff": d,
                "hist": (tplT if same else tplH).witness(m),
                "toks": tplT.witness(m),
            }
            rec["cls"] += "-DIFF"
        elif second[0] == "ast":
            m = eng.model()
            rec["sample"] = {"history": toklex.render((tplT if same else tplH).witness(m)).strip(), "input": toklex.render(tplT.witness(m)).strip()}
            rec["accepted"] = rec["sample"]
        return rec

    return path_fn


def generator_reuse(native_parser, native_gen, text):
    """concrete: a reused CGenerator behaves like a fresh one on an accepted program"""
    try:
        ast = native_parser.CParser().parse(text, "b.c")
    except Exception:
        return None
    for rp in (False, True):
        g = native_gen.CGenerator(reduce_parentheses=rp)
        try:
            t1 = g.visit(ast)
        except Exception:
            return None  # generator failures are C07's subject
        if g.indent_level != 0:
            return f"indent_level={g.indent_level} after visit (reduce_parentheses={rp})"
        t2 = g.visit(ast)
        t3 = native_gen.CGenerator(reduce_parentheses=rp).visit(ast)
        if not (t1 == t2 == t3):
            return f"reused CGenerator output differs from fresh one (reduce_parentheses={rp})"
    return None


def replay(rp, v):
    h, t = toklex.render(v["hist"]), toklex.render(v["toks"])
    v["texts"] = [[h, "a.c"], [t, "b.c"]]
    r = rp.ask(op="history", texts=v["texts"])
    v["replay_outcome"] = {"reused": r.get("reused", [None, None])[1], "fresh": r.get("fresh", [None, None])[1], "shared": r.get("shared_nodes")}
    if "reused" not in r:
        return False
    return r["reused"][1] != r["fresh"][1] or bool(r.get("shared_nodes"))


def replay_body(v):
    return (
        "import io\nfrom pycparser.c_parser import CParser\n"
        f"texts = {v['texts']!r}\n"
        "def run(p, text, fn):\n"
        "    try:\n        a = p.parse(text, fn)\n    except Exception as e:\n        return (type(e).__name__, str(e))\n"
        "    b = io.StringIO(); a.show(buf=b, attrnames=True, nodenames=True, showcoord=True); return ('ast', b.getvalue())\n"
        "p = CParser()\nrun(p, *texts[0])\nreused = run(p, *texts[1])\nfresh = run(CParser(), *texts[1])\n"
        "if reused != fresh:\n    print('VIOLATION reproduced: after history', repr(texts[0][0]), 'input', repr(texts[1][0]), 'gives', reused[:2] if reused[0]!='ast' else 'a different AST', 'instead of', fresh[:2] if fresh[0]!='ast' else 'AST'); sys.exit(1)\n"
        "sys.exit(0)\n"
    )


def main():
    report = checklib.Report(PID)
    findings = checklib.Findings(PID)
    rp = checklib.Replayer()
    nh, nt = BOUNDS[checklib.tier()]
    report.assumptions += [
        "histories are symbolic token sequences (template h) parsed on the same CParser instance before the input (template k); failing, succeeding and scope-leaking histories all occur as paths",
        "tokens are injected through CParser(lexer=...) by a lexer that is re-initialised by input() like CLexer; reuse of the real CLexer is checked at character level",
        "generator reuse is executed concretely on the solver's witness of each accepted path class",
    ]
    try:
        P = symparser.load()
        nval = checklib.validate_parser_translation(P)
        report.notes.append(f"translator validation: {nval} repository test inputs")
        alpha = toklex.full_alphabet()
        native_parser = loader.native("c_parser")
        native_gen = loader.native("c_generator")
        cands = {}
        gen_checked = 0
        report.bounds["token_level"] = {
            "history_contexts": {c.name: " ".join(c.prefix) + f" <{nh} holes over {len(SIGMA_H)} symbols>" for c in HIST},
            "input_contexts": {c.name: " ".join(c.prefix) + f" <{nt} holes over {len(SIGMA_T)} symbols> " + " ".join(c.suffix) for c in SECOND},
            "history_alphabet": SIGMA_H,
            "input_alphabet": SIGMA_T,
            "outside": "longer histories/inputs, histories of more than one earlier call (one call is inductive: any state a longer history leaves is the state after its last call)",
        }
        jobs = []
        for hc in HIST:
            for tc in SECOND:
                for hn in range(0, (nh - 1 if hc.name.startswith("h-deep") else nh) + 1):
                    if checklib.tier() == "quick" and hn == nh and tc.name == "t-function":
                        continue  # the largest product is left to the thorough tier
                    jobs.append((hc, hn, tc, nt, False))
        for tc in SECOND:
            jobs.append((None, 0, tc, nt, True))
        for hc, hn, tc, tn, same in jobs:
            tplT = tc.template(alpha, tn)
            tplH = hc.template(alpha, hn) if hc else None
            if tplH is not None:
                tplH = toklex.Template(alpha, hc.prefix + [list(hc.domain)] * hn, name=tplH.name, var="h")
            Lex = toklex.make_lexer_class(tplT)

            def make_engine(tplH=tplH, tplT=tplT):
                eng = E.Engine()
                if tplH is not None:
                    tplH.declare(eng)
                tplT.declare(eng)
                return eng

            name = f"{hc.name if hc else 'same-text-twice'}/{hn}+{tc.name}/{tn}"
            job = E.Job(name, make_engine, make_path_fn(P, tplH, Lex, tplT, same), split=("depth", 10) if hn >= 2 else None, max_samples=3)
            if hn == 1 and tc is SECOND[0] and hc is HIST[0]:
                report.functions |= tokharness.sample_census(job)
            res = E.run_job(job, workers=None if hn >= 2 else 1)
            report.add_run(name, res, describe=(tplH.describe() if tplH else "<same as input>") + "  ||  " + tplT.describe())
            for v in res.violations:
                cands.setdefault(v["sig"], []).append(v)
            for s in res.samples[:2]:
                gen_checked += 1
                d = generator_reuse(native_parser, native_gen, s["input"])
                if d:
                    what = f"generator-reuse: {d} on {s['input']!r}"
                    body = (
                        "from pycparser.c_parser import CParser\nfrom pycparser.c_generator import CGenerator\n"
                        f"ast = CParser().parse({s['input']!r})\n"
                        "bad = False\nfor rp in (False, True):\n    g = CGenerator(reduce_parentheses=rp); a = g.visit(ast); lvl = g.indent_level; b = g.visit(ast)\n"
                        "    if lvl != 0 or a != b or a != CGenerator(reduce_parentheses=rp).visit(ast): bad = True\n"
                        "if bad: print('VIOLATION reproduced: reused CGenerator differs'); sys.exit(1)\nsys.exit(0)\n"
                    )
                    report.violations.append({"sig": "generator-reuse", "what": what, "replay": checklib.write_replay(PID, what, body)})
        # reused generator on the repository's own snippets as well (concrete, complementary): they contain the rare
        # shapes the small input alphabet lacks (empty struct bodies, nested declarations, pragmas ...)
        for sn in checklib.repo_test_snippets():
            gen_checked += 1
            d = generator_reuse(native_parser, native_gen, sn)
            if d:
                what = f"generator-reuse: {d} on {sn[:200]!r}"
                body = (
                    "from pycparser.c_parser import CParser\nfrom pycparser.c_generator import CGenerator\n"
                    f"ast = CParser().parse({sn!r})\n"
                    "bad = False\nfor rp in (False, True):\n    g = CGenerator(reduce_parentheses=rp); a = g.visit(ast); lvl = g.indent_level; b = g.visit(ast)\n"
                    "    if lvl != 0 or a != b or a != CGenerator(reduce_parentheses=rp).visit(ast): bad = True\n"
                    "if bad: print('VIOLATION reproduced: reused CGenerator differs'); sys.exit(1)\nsys.exit(0)\n"
                )
                report.violations.append({"sig": "generator-reuse", "what": what, "replay": checklib.write_replay(PID, what, body)})
                break
        report.extra["generator_reuse_programs"] = gen_checked
        for sig, vs in sorted(cands.items()):
            vs.sort(key=lambda v: len(v["hist"]) + len(v["toks"]))
            good = None
            for v in vs[:4]:
                report.replayed += 1
                if replay(rp, v):
                    good = v
                    break
            if good is None:
                report.unreproduced.append({"sig": sig, "texts": vs[0].get("texts"), "diff": vs[0]["diff"], "outcome": vs[0].get("replay_outcome")})
                continue
            what = f"{good['diff']} after history {good['texts'][0][0]!r} on input {good['texts'][1][0]!r}"
            kf = findings.match(sig)
            if kf:
                report.known_hits[sig] = kf["what"]
                continue
            report.violations.append({"sig": sig, "what": what, "replay": checklib.write_replay(PID, what, replay_body(good))})
        try:
            from checks import c12_chr

            c12_chr.run(report, findings, rp)
        except ImportError:
            report.notes.append("character-level lexer-reuse part not built yet")
    finally:
        rp.close()
    return report.finish(findings, required_witnesses=["history-ParseError", "history-ast", "second-ast", "second-ParseError"])


if __name__ == "__main__":
    checklib.run_main(main)
