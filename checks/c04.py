"""C04 - an identifier is a type name exactly where C scoping makes it one.

symx-tok with IDENT symbols: every identifier token is classified by the REAL
CParser._lex_type_lookup_func at the moment the real parser asks its lexer for
it, and the REAL brace callbacks push/pop scopes when braces are lexed - so the
interplay "scopes pushed when braces are lexed, names registered when
declarations are reduced, classification frozen in the look-ahead buffer" is
executed, not modelled.  refc parses the same tokens with its own scope table
(ISO 9899:1999 6.2.1: scope of an ordinary identifier starts after its declarator,
of an enumerator after the enumerator; parameters of a definition live in the
body block; a for statement with a declaration is a block; tags, members, labels
and prototype parameters do not affect ordinary identifiers outside).
On every path refc accepts:
  (i)  every identifier token was classified TYPEID by the real callback iff refc's
       table says typedef-name at that point (compared position by position);
  (ii) the real parser accepts and the AST equals refc's tree, so each probe
       ('a * b ;', '( a ) ( b ) ;', 'sizeof ( a ) ;', 'a ( b ) ;') is a declaration / cast /
       type operand exactly when refc says so.
Templates are histories of declarations of two names over nested scopes with the
probes at a symbolic position.
"""
from __future__ import annotations

from symx import engine as E
from symx import checklib, diffcheck, toklex, symparser, tokharness, diffharness as D
from symx.tokharness import Ctx, PatCtx

PID = "C04"

HOLE = ["typedef", "int", "struct", "enum", "a", "b", "*", "(", ")", "{", "}", ";", ",", "=", ":", "1", "goto", "sizeof", "for"]
SMALL = ["typedef", "int", "a", "b", "*", "(", ")", "{", "}", ";", ",", "="]
PROBES = ["a * b ;", "( a ) ( b ) ;", "sizeof ( a ) ;", "a ( b ) ;", "b = ( a ) * b ;"]


def contexts(tier):
    q = tier == "quick"
    out = []
    # free holes at file scope, in a function body, in a nested block, before each probe
    for pi, probe in enumerate(PROBES):
        pr = probe.split()
        out.append((Ctx(f"file-then-fn/probe{pi}", ["typedef", "int", "a", ";"], ["void", "y", "(", "void", ")", "{"] + pr + ["}"], domain=SMALL), 4 if q else 5))
        out.append((Ctx(f"body/probe{pi}", ["typedef", "int", "a", ";", "void", "y", "(", "void", ")", "{"], pr + ["}"], domain=HOLE), 4 if q else 5))
        out.append((Ctx(f"nested-block/probe{pi}", ["typedef", "int", "a", ";", "void", "y", "(", "void", ")", "{"], ["{"] + pr + ["}", pr[0] if False else ";", "}"], domain=SMALL), 4 if q else 5))
        out.append((Ctx(f"after-inner-block/probe{pi}", ["typedef", "int", "a", ";", "void", "y", "(", "void", ")", "{", "{"], ["}"] + pr + ["}"], domain=SMALL), 4 if q else 5))
        out.append((Ctx(f"params/probe{pi}", ["typedef", "int", "a", ";", "void", "y", "("], [")", "{"] + pr + ["}"] + pr[:0], domain=["int", "a", "b", "*", ",", "(", ")", "void", "[", "]"]), 4 if q else 5))
        out.append((Ctx(f"after-function/probe{pi}", ["typedef", "int", "a", ";", "void", "y", "(", "int", "a", ")", "{"], ["}", "int", "y", "(", "void", ")", "{"] + pr + ["}"], domain=SMALL), 3 if q else 4))
    cls = {"?N": ["a", "b"], "?K": ["typedef", "int"], "?D": ["typedef int", "int"], "?S": ["struct", "union", "enum"],
           "?X": ["( a )", "( ( a ) )", "( * a )", "a", "( a ) ( a )", "( * ( a ) )", "( b ) ( a )"],
           "?T": ["enum { y }", "enum b { y , b }", "struct b { int y ; }", "union { a y ; }", "struct { enum { y } b ; }"]}
    pats = [
        # object / parameter / enumerator / tag / member / label declarations of a name that is a typedef outside
        "typedef int a ; void y ( void ) { int a ; { a * b ; } a * b ; } a * b ;",
        "typedef int a ; void y ( void ) { { int a ; a * b ; } a * b ; }",
        "typedef int a ; void y ( void ) { int a ; { typedef int a ; a * b ; } a * b ; }",
        "typedef int a ; void y ( int a ) { a * b ; { { a * b ; } } } a * b ;",
        "typedef int a ; void y ( int , int a ) { a * b ; }",
        "typedef int a ; void y ( int a ) ; a * b ;",
        "typedef int a ; void y ( void ) { enum b { a , b } ; a * b ; } a * b ;",
        "typedef int a ; void y ( void ) { enum { b = sizeof ( a ) , a = sizeof ( a ) } ; }",
        "typedef int a ; struct a { int a ; a b ; } ; a * b ;",
        "typedef int a ; void y ( void ) { struct a { int b ; } ; union b { a a ; } ; a * b ; a : ; goto a ; }",
        "typedef int a ; void y ( void ) { a : a * b ; }",
        "typedef int a ; void y ( void ) { int b = sizeof ( a ) , a = sizeof ( a ) , * y = sizeof ( a ) ; }",
        "typedef int a ; void y ( void ) { a a = sizeof ( a ) ; a * b ; }",
        "typedef int a ; void y ( void ) { for ( int a = 1 ; a * b ; ) a * b ; a * b ; }",
        "typedef int a ; void y ( void ) { for ( a b ; ; ) { int a ; } a * b ; }",
        "typedef int a ; void y ( void ) { if ( 1 ) { int a ; } else a * b ; a * b ; }",
        "typedef int a ; void y ( void ) { int b [ sizeof ( a ) ] , a [ sizeof ( a ) ] ; }",
        "typedef int a , b ; void y ( void ) { a b ; b * a ; }",
        "typedef int a ; int y ( a ) { return ( a ) ( 1 ) ; }",
        "typedef int a ; int y ( b ) a b ; { a * b ; }",
        "typedef int a ; a y ( a b , a ( * a ) ( a ) ) { a * b ; }",
        "typedef int a ; void y ( void ) { extern int a ( a ) ; a ( b ) ; }",
        "typedef int a ; void y ( void ) { ?K ?N ; { ?K ?N ; a * b ; } a * b ; }",
        "typedef int a ; void y ( ?K ?N ) { ?K ?N ; a * b ; }",
        "typedef int a ; int b = { sizeof ( a ) } ; ?K a ; int y = { ( a ) * b } ;",
        # sibling scopes at the same depth: what one block declared or looked up must not leak into the next
        "typedef int a ; void y ( void ) { { int a ; a = 1 ; } { a * b ; } }",
        "typedef int a ; void y ( void ) { { ?K ?N ; ?N = 1 ; } { a * b ; ( a ) ( b ) ; } { ?K ?N ; } a * b ; }",
        "typedef int a ; void y ( void ) { if ( 1 ) { int a ; a = 1 ; } else { a * b ; } }",
        "typedef int a ; void y ( int a ) { a = 1 ; } void b ( void ) { a * y ; }",
        "typedef int a ; void y ( void ) { { typedef char b ; b y ; } { b * a ; } }",
        "typedef int a ; struct y { int a ; } ; void b ( void ) { { int a ; a = 1 ; } { sizeof ( a ) ; } }",
        # block-scope function declarations and multi-declarator declarations hiding a typedef
        "typedef int a ; void y ( void ) { int a ( void ) , b = sizeof ( a ) ; }",
        "typedef int a ; void y ( void ) { int a ( void ) , b = ( a ) ( 1 ) ; }",
        "typedef int a ; void y ( void ) { int ( * a ) ( void ) , b = sizeof ( a ) , y [ sizeof ( a ) ] ; }",
        # which parameter list belongs to the function being defined (6.9.1p5: the declarator's own, innermost, list)
        "typedef int a ; void ( * y ( int b ) ) ( int a ) { a * y ; b = 1 ; }",
        "typedef int a ; int ( * y ( int a ) ) [ 1 ] { a * b ; }",
        "typedef int a ; int ( * y ( int a ) ) ( int b ) { a * b ; }",
        "typedef int a ; int * ( y ) ( int a ) { a * b ; } a * b ;",
        # K&R declaration lists declare in the function's block, not outside it
        "int y ( b ) int b ; { b = 1 ; } typedef int b ; b * y ;",
        "typedef int a ; int y ( b ) a * b ; { a * y ; } typedef int b ; b * y ;",
        # function prototype scope (6.2.1p4): a parameter hides a typedef in the rest of its parameter list
        "typedef int a ; void y ( int a , int b [ a ] ) ;",
        "typedef int a ; void y ( int a , int b [ sizeof ( a ) ] ) { a = 1 ; } a * b ;",
        "typedef int a ; void y ( int a , int ( * b ) ( int y [ a * 1 ] ) ) ; a * b ;",
        "typedef int a ; void y ( int ( * b ) ( int a ) , a * y ) ; a * b ;",
        "typedef int a ; void y ( ?K ?N , int y [ sizeof ( a ) ] ) ;",
        # a typedef name in redundant parentheses in a parameter declarator is a parameter TYPE (6.7.5.3p11), not the parameter's name
        "typedef int a ; void y ( int ( ( a ) ) , int ( * ( a ) ) , int ( * ( * b ) ( a ) ) ) { a * b ; }",
        "typedef int a ; void y ( int ( ?X ) ) { a * b ; } void b ( int ( * ?X ) ) { a * y ; }",
        # file-scope declarations with several declarators (a separate code path from block-scope declarations):
        # every declarator's name is in scope from the end of ITS declarator
        "typedef int y , b , a [ sizeof ( b ) ] ; struct y { b a ; a b ; } ;",
        "?D y , b , a [ sizeof ( b ) ] ; void ( * ( b ) ) ( void ) , ( a ) [ sizeof ( a ) ] ;",
        "typedef int a ; a y , b = sizeof ( y ) , ( * y ) ( a b ) ; typedef a ( * ( a ) ) ( a y ) ;",
        # a struct / union / enum body met while the parser scans ahead for a declarator's name, or parsed twice
        # (compound literal): the scope bookkeeping of its braces must not disturb the enclosing block
        "typedef int a ; void y ( void ) { { void b ( int ( ?T y ) ) ; int a ; a = 1 ; } a * b ; }",
        "typedef int a ; void b ( int ( ?T y ) ) ; void y ( void ) { { int a ; a = 1 ; } a * b ; }",
        "typedef int a ; void y ( void ) { { b = ( ?T ) { 0 } ; int a ; a = 1 ; } a * b ; }",
        "typedef int a ; void y ( void ) { { b = sizeof ( ?T ) + sizeof ( ?T ) { 0 } ; int a ; a = 1 ; } a * b ; }",
        "typedef int a ; void y ( void ) { { int ( * b ) ( ?T ) , a ; a = 1 ; } a * b ; }",
        "typedef int a ; void y ( ?K ?N , int b [ sizeof ( a ) ] ) { a * b ; } a * b ;",
        "typedef int a ; void y ( int ( * b ) ( int a , int y [ sizeof ( a ) ] ) , a * y ) { a * y ; }",
    ]
    for i, p in enumerate(pats):
        out.append((PatCtx(f"history{i}:{p}", [], p, [], cls), 0))
    return out


def main():
    report = checklib.Report(PID)
    findings = checklib.Findings(PID)
    report.assumptions += [
        "identifier tokens are classified by the real CParser._lex_type_lookup_func when the real parser requests them through CParser(lexer=...); brace callbacks are the real ones",
        "refc's scope table implements ISO 9899:1999 6.2.1; programs refc rejects (e.g. a name used as a type after it was hidden) carry no claim",
        "2 names, nesting depth <= 3",
    ]
    P = symparser.load()

    def hook(rec, impl, ref, tpl):
        """(i): token-by-token comparison of the real callback's classification with refc's table.
        Where the outcome differs (tree or rejection) and an identifier was classified differently,
        the violation is attributed to that identifier: signature = how it was classified + the two tokens before it."""
        if ref[0] != "accept" or not rec.get("viol"):
            return
        parser = impl[2]
        got = {i: t for i, name, t in parser.clex.classified}
        exp = {i: t for i, name, t in ref[2].classified}
        for i in sorted(exp):
            if i in got and got[i] != exp[i]:
                if i in ref[2].proto_resolved:
                    # the reference resolved this identifier through a parameter declared earlier in the SAME parameter list
                    # (function prototype scope, 6.2.1p4).  The property exempts prototype-only parameter names ("never affect it");
                    # for the parameter list of a function DEFINITION it says "from the end of its declarator".
                    if any(a < i < b for a, b in ref[2].def_param_ranges):
                        for v in rec["viol"]:
                            v["sig"] = "scope:TYPEID-for-object:own-parameter-list-of-definition"
                            v["what"] = (f"identifier token #{i} '{v['toks'][i][1]}' names a parameter declared earlier in the same parameter list of a function definition, "
                                         f"but the parser's callback classified it TYPEID (outer typedef); consequence: {v['what']}")
                    else:
                        rec["viol"] = []
                        rec["cls"] = "no-claim:prototype-only-parameter-scope"
                    break
                for v in rec["viol"]:
                    toks = v["toks"]
                    before = ",".join(t for t, _ in toks[max(0, i - 2):i])
                    v["sig"] = f"scope:{'TYPEID' if got[i] else 'ID'}-for-{'typedef-name' if exp[i] else 'object'}:after:{before}"
                    v["what"] = (f"identifier token #{i} '{toks[i][1]}' was classified {'TYPEID' if got[i] else 'ID'} by the parser's callback but C scoping makes it "
                                 f"{'a typedef name' if exp[i] else 'an ordinary identifier'} there; consequence: {v['what']}")
                break

    alphabet = toklex.full_alphabet(idents=("IDENT:a", "IDENT:b", "IDENT:y"))
    alpha, cands = diffcheck.run(PID, contexts(checklib.tier()), ("tree", "accept"), report, findings, alphabet=alphabet, extra_path_hook=hook, parallel_from=4)
    diffcheck.settle(PID, alpha, cands, report, findings, ("tree", "interp", "rejected-valid"))
    return report.finish(findings, required_witnesses=["accept/accept", "accept/reject"])


if __name__ == "__main__":
    checklib.run_main(main)
