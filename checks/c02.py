"""C02 - expression ASTs follow C precedence, associativity and operator binding.

Differential symbolic execution: in each of the eight expression contexts of the
property the real parser and the reference front end refc (layered grammar of
ISO 9899:1999 6.5) run on the same symbolic tokens; on every path both accept,
interp(AST) must equal refc's tree: operators in the same places, operand
order, call arguments, member names, constant spellings and the Constant.type
implied by suffix/prefix, casts/sizeof/compound literals with their type names,
and the one visible trace of parentheses (nested comma lists).  Operators that
neither parser tells apart stay symbolic on a path, which is how all operator
pairs and triples are covered without enumerating them.
"""
from __future__ import annotations

from symx import checklib, diffcheck, toklex
from symx.tokharness import Ctx

PID = "C02"

BIN = ["||", "&&", "|", "^", "&", "==", "!=", "<", ">", "<=", ">=", "<<", ">>", "+", "-", "*", "/", "%"]
ASG = ["=", "+=", "-=", "*=", "/=", "%=", "<<=", ">>=", "&=", "^=", "|="]
SIGMA_E = BIN + ASG + ["?", ":", ",", "(", ")", "[", "]", ".", "->", "++", "--", "!", "~", "sizeof", "_Alignof", "int", "const",
                       "x", "y", "T", "1", "2u", "0x1F", "1.0f", "'c'", '"s"', 'L"w"', "{", "}"]
# one representative per (precedence level, associativity, arity) class for the deep runs
SIGMA_R = ["||", "&&", "|", "==", "<", "<<", "+", "*", "=", "+=", "?", ":", ",", "(", ")", "[", "]", ".", "++", "!", "-", "sizeof", "int", "x", "T", "1", "{", "}"]

PRE = ["typedef", "int", "T", ";"]
FN = PRE + ["void", "y", "(", "void", ")", "{"]


def contexts(tier):
    q = tier == "quick"
    full = [
        (Ctx("initializer", PRE + ["int", "x", "="], [";"], domain=SIGMA_E), 4 if q else 6),
        (Ctx("statement", FN, [";", "}"], domain=SIGMA_E), 4 if q else 5),
        (Ctx("condition", FN + ["if", "("], [")", ";", "}"], domain=SIGMA_E), 4 if q else 5),
        (Ctx("argument", FN + ["x", "("], [")", ";", "}"], domain=SIGMA_E), 4 if q else 5),
        (Ctx("array-bound", PRE + ["int", "x", "["], ["]", ";"], domain=SIGMA_E), 4 if q else 5),
        (Ctx("case-label", FN + ["switch", "(", "x", ")", "{", "case"], [":", ";", "}", "}"], domain=SIGMA_E), 4 if q else 5),
        (Ctx("bit-width", PRE + ["struct", "y", "{", "int", "x", ":"], [";", "}", ";"], domain=SIGMA_E), 4 if q else 5),
        (Ctx("enumerator-value", PRE + ["enum", "y", "{", "x", "="], ["}", ";"], domain=SIGMA_E), 4 if q else 5),
    ]
    deep = [(Ctx("initializer-reduced", PRE + ["int", "x", "="], [";"], domain=SIGMA_R), 6 if q else 7)]
    return full + deep + patterns(tier)


OPS = {"?O": BIN + ASG + [","], "?B": BIN, "?U": ["-", "!", "~", "*", "&", "++", "--", "sizeof"], "?P": ["++", "--"], "?V": ["x", "1", "T", '"s"'],
       "?M": [".", "->"], "?A": ASG, "?C": [",", "=", "+"]}
PATTERNS = [
    # operator pairs / triples / quadruples, minimal parenthesisation
    "x ?O x ?O x", "x ?O x ?O x ?O x", "x ?B x ?B x ?B x ?B x",
    # redundant and full parenthesisation of three operators (all five tree shapes)
    "( x ?O x ) ?O x ?O x", "x ?O ( x ?O x ) ?O x", "x ?O x ?O ( x ?O x )", "( x ?O x ?O x ) ?O x", "x ?O ( x ?O x ?O x )",
    "( ( x ?O x ) ?O x ) ?O x", "x ?O ( x ?O ( x ?O x ) )", "( x ?O x ) ?O ( x ?O x )", "( x ?O ( x ?O x ) ) ?O x", "x ?O ( ( x ?O x ) ?O x )",
    # conditional operator with binary/assignment/comma neighbours
    "x ?O x ? x ?O x : x ?O x", "x ? x : x ? x : x", "x ? x ? x : x : x", "x ?A x ? x , x : x", "x ? x , x : x ?B x", "x ?B x ? x ?A x , x ?A x : x ?B x", "( x ?C x ) ?C x ?C ( x ?C x )",
    # prefix / postfix / cast / sizeof binding
    "?U x ?O ?U x", "?U ?U x ?P ?P", "?U x [ x ] ?P ?O x", "?U x ?M x ?P ?O x", "( T ) ?U x ?O x", "?U ( T ) x ?P", "sizeof ( T ) ?O x", "sizeof ?U x ?O x",
    "sizeof ( x ) ?O x", "?U ( T ) { x } ?P ?O x", "( T ) ( T ) x ?O x", "?U x ( x ?O x , x ?O x ) ?P", "x ( ( x ?C x ) , x ) ?O x", "_Alignof ( T ) ?O ?U x",
    # a single parenthesised comma expression as the only argument / as the last operand of a comma expression
    "x ( ( x ?C x ) ) ?O x", "x ( x , ( x ?C x ) )", "x ?C ( x ?C x )", "x ?C x ?C ( x ?C x )", "x [ x ?C ( x ?C x ) ] ?O x", "x ? x ?C ( x , x ) : x",
]


def patterns(tier):
    from symx.tokharness import PatCtx

    out = []
    for i, pat in enumerate(PATTERNS):
        if pat.count("?") >= 4 and tier == "quick":
            continue
        out.append((PatCtx(f"pattern{i}-stmt:{pat}", FN, pat, [";", "}"], OPS), 0))
        if tier == "thorough":
            out.append((PatCtx(f"pattern{i}-init:{pat}", PRE + ["int", "y", "="], pat, [";"], OPS), 0))
    return out


def main():
    report = checklib.Report(PID)
    findings = checklib.Findings(PID)
    report.assumptions += [
        "tokens injected through CParser(lexer=...); identifiers are classified by the parser's own type_lookup_func (T is declared by a fixed 'typedef int T ;' prefix)",
        "refc: hand transcription of ISO 9899:1999 A.2.1 in the layered form; interp: the documented reading of the AST; both validated on the repository's accepted test inputs each run",
        "paths on which refc rejects (GNU extensions such as statement expressions, empty initializers, assignment to a non-unary expression) carry no claim",
    ]
    alpha, cands = diffcheck.run(PID, contexts(checklib.tier()), ("tree",), report, findings)
    report.bounds["alphabets"] = {"SIGMA_E": SIGMA_E, "SIGMA_R": SIGMA_R, "outside": "expressions needing more holes than the bound; spellings outside the alphabet"}
    report.functions |= {"symx/refc.py (reference)", "symx/interp.py (reference reading)"}
    diffcheck.settle(PID, alpha, cands, report, findings, ("tree", "interp"))
    return report.finish(findings, required_witnesses=["accept/accept", "accept/reject", "reject/skipped"])


if __name__ == "__main__":
    checklib.run_main(main)
