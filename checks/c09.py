"""C09 - tokenisation is lossless, longest-match and position-exact.

symx-chr, ONE INDUCTIVE STEP: the real CLexer.token() is executed once from an
ARBITRARY lexer state (line number l >= 1 and line start -d, d >= 0, free z3
integers; arbitrary file name; window of symbolic code points with symbolic
length = the remaining input), in product with a reference description of the
skip grammar (blanks, newlines, well-formed #line / linemarker lines) and the
reference token grammar `reflex`.  Post-conditions proved on every path:
 (a) what is skipped is exactly blanks/newlines/valid line directives;
 (b) the token is (class, spelling) of the LONGEST well-formed token at the
     first non-skipped position, spelling = the window slice, new position = its end,
     class TYPEID iff the type callback said so (consulted exactly once, for
     non-keyword identifiers only), brace callbacks fired exactly once;
 (c) lineno / column equal, as z3 integer terms for ALL l and d, the reference
     line (re-based by the last #line) and offset from the reference line start;
 (d) progress: the position grew or None was returned at the end of input;
 (e) #pragma: PPPRAGMA, then on the next call PPPRAGMASTR with the rest of the
     line verbatim, line bookkeeping advanced once;
 (f) where the reference sees non-token text, the error callback is invoked
     (never silently skipped) - this is also C18's character-level part.
Since the state is arbitrary, one step covers token sequences and layouts of any
length by induction on calls, for remaining inputs up to the window bound.
"""
from __future__ import annotations

import z3

from symx import engine as E
from symx import checklib, loader, symlexer, reflex
from symx.engine import IntervalSet
from symx.sremodel import ModelPattern
from symx.symtext import SymBase, SymText, iset_of_chars
from symx.proxies import SymInt

PID = "C09"
BOUNDS = {"quick": {"window": 6, "directive": 8}, "thorough": {"window": 8, "directive": 10}}
DIRECTIVE_ALPHABET = "# \t\nlinepragm012\"\\x;L"

BLANK = iset_of_chars(" \t")
NL = iset_of_chars("\n")
HASH = iset_of_chars("#")

# reference forms of the two supported directives (text after '#', up to newline/EOF)
_N = r"(?:0|[1-9][0-9]*)"
LINE_DIRECTIVE = ModelPattern(r"[ \t]*(?:line[ \t]+)?(?P<num>" + _N + r")[ \t]*(?:(?P<file>" + reflex.STRING + r")[ \t]*(?:" + _N + r"[ \t]*)*)?")
_PPN = r"[0-9][0-9A-Za-z]*"
LENIENT_LINE = ModelPattern(r"[ \t]*(?:line[ \t]+)?" + _PPN + r"[ \t]*(?:" + reflex.STRING + r"[ \t]*(?:" + _PPN + r"[ \t]*)*)?")
MUST_BE_LINE = ModelPattern(r"[ \t]*(?:line\W|\d)")
LOOKS_LIKE_LINE = ModelPattern(r"[ \t]*(?:line(?!\w)|\d)")
PRAGMA_HEAD = ModelPattern(r"[ \t]*pragma(?!\w)")
WORDCH = IntervalSet([(48, 57), (65, 90), (97, 122), (95, 95)])


def z(x):
    return x.e if isinstance(x, SymInt) else x


def num_term(text, a, b):
    e = z3.IntVal(0)
    for j in range(a, b):
        e = e * 10 + (text.cp(j) - 48)
    return e


def reference_step(text, line0, linestart0, file0):
    """Reference reading of one token() call.  Returns dict:
    kind: 'eof' | 'token' | 'error' | 'noclaim'
    for 'token': type, a, b (slice), line (z3 term), col (z3 term), pragma_str (a,b)|None, after: (pos, line, linestart)"""
    n = len(text)
    pos = 0
    line = line0
    ls = linestart0  # z3 term or int: offset of current line start
    fname = file0
    while True:
        if pos >= n:
            return {"kind": "eof", "line": line, "ls": ls, "file": fname}
        if text.test(pos, BLANK):
            pos += 1
            continue
        if text.test(pos, NL):
            pos += 1
            line = line + 1
            ls = pos
            continue
        if text.test(pos, HASH):
            eol = text.find("\n", pos + 1)
            end = n if eol == -1 else eol
            body = text[pos + 1 : end]
            m = LINE_DIRECTIVE.fullmatch(body)
            if m is not None:
                a, b = m.span("num")
                line = num_term(body, a, b)
                if m.group("file") is not None:
                    fa, fb = m.span("file")
                    fname = ("span", pos + 1 + fa + 1, pos + 1 + fb - 1)
                pos = end + 1 if eol != -1 else n
                ls = end + 1
                continue
            if LENIENT_LINE.fullmatch(body) is not None:
                return {"kind": "noclaim", "why": "#line with number-like items the standard does not allow (suffixes, leading zeros)", "expect_error": False}
            if MUST_BE_LINE.match(body) is not None:
                return {"kind": "noclaim", "why": "malformed #line directive", "expect_error": True}
            if LOOKS_LIKE_LINE.match(body) is not None:
                return {"kind": "noclaim", "why": "'#line' at the end of the line/input", "expect_error": False}
            pm = PRAGMA_HEAD.match(body)
            if pm is not None:
                wa = pos + 1 + pm.end() - len("pragma")
                sa = pos + 1 + pm.end()
                while sa < end and text.test(sa, BLANK):
                    sa += 1
                res = {"kind": "token", "type": "PPPRAGMA", "lit": "pragma", "a": wa, "b": wa + 6, "line": line, "col": wa - ls + 1, "file": fname}
                res["pragma_str"] = (sa, end) if end > sa else None
                res["pragma_str_col"] = sa - ls + 1
                if eol != -1:
                    res["after"] = (end + 1, line + 1, end + 1)
                else:
                    res["after"] = (end, line, ls)
                return res
            return {"kind": "token", "type": "PPHASH", "lit": "#", "a": pos, "b": pos + 1, "line": line, "col": pos - ls + 1, "after": (pos + 1, line, ls), "file": fname}
        v = reflex.verdict(text, pos)
        if v[0] == "token":
            return {"kind": "token", "type": v[1], "lit": v[3], "a": pos, "b": v[2], "line": line, "col": pos - ls + 1, "after": (v[2], line, ls), "file": fname}
        return {"kind": "error", "at": pos, "why": v[1], "line": line, "col": pos - ls + 1}


class StopStep(Exception):
    pass


def make_job(Lmod, base, name, stop_at_error=True, first_char=None, fixed_prefix=None):
    ell = z3.Int("ell")
    delta = z3.Int("delta")

    def make_engine():
        eng = E.Engine([ell >= 1, delta >= 0])
        base.declare(eng)
        if first_char is not None and base.maxlen:
            d = iset_of_chars(first_char)
            eng.base_dom[(base.name, 0)] = d
            eng.solver.add(eng.iv_expr((base.name, 0), base.chars[0], d))
        # the window starts with these characters (each position may list alternatives): only the tail is free
        for i, alts in enumerate(fixed_prefix or []):
            if i < base.maxlen:
                d = iset_of_chars(alts)
                eng.base_dom[(base.name, i)] = d
                eng.solver.add(eng.iv_expr((base.name, i), base.chars[i], d))
        return eng

    def once():
        eng = E.cur()
        errs = []
        looked = []
        braces = []

        def type_lookup(name_):
            b = z3.Bool(f"istype{len(looked)}")
            r = eng.decide(b)
            looked.append((name_, r))
            return r

        def on_error(m, l, c):
            # like the parser's callback (which raises ParseError): the step ends at the first error.
            # Progress after an error is checked on _match_token (C10) and on directive lines (run "directive-errors").
            errs.append((m, l, c))
            if stop_at_error:
                raise StopStep()

        lx = Lmod.CLexer(on_error, lambda: braces.append("{"), lambda: braces.append("}"), type_lookup)
        text = SymText(base)
        lx.input(text, "F0")
        lx._lineno = SymInt(ell)
        lx._line_start = SymInt(-delta)
        stopped = False
        try:
            tok = lx.token()
        except StopStep:
            tok = None
            stopped = True
        except (E.HarnessError, E.Abort):
            raise
        except RecursionError:
            raise
        except Exception as e:
            # nothing but the error callback may leave token(): an exception escaping here escapes parse() too
            m = eng.model()
            return {"cls": "exception", "viol": {"sig": "lexer-step:exception " + type(e).__name__, "what": f"{type(e).__name__} escaped from CLexer.token(): {e}",
                                                  "text": base.witness(m), "istype": [bool(r) for _, r in looked], "exc": type(e).__name__}}
        pos1, line1, ls1, file1 = lx._pos, lx._lineno, lx._line_start, lx._filename
        pending = lx._pending_tok
        n = len(text)
        ref = reference_step(text, ell, -delta, "F0")
        bad = None

        def eq(a, b):
            a, b = z(a), z(b)
            if isinstance(a, int) and isinstance(b, int):
                return a == b
            return eng.prove(a == b) == "proved"

        cls = ref["kind"]
        if ref["kind"] == "eof":
            if tok is not None:
                bad = f"only blanks/newlines/line directives remain but token {tok.type} was returned"
            elif errs:
                bad = f"error reported on skippable text: {errs[0][0]}"
            elif pos1 < n and not stopped:
                bad = "None returned before the end of input"
            elif not eq(line1, ref["line"]):
                bad = "line counter after skipping differs from the reference count"
        elif ref["kind"] == "token":
            cls += ":" + ref["type"]
            exp_type = ref["type"]
            if tok is None:
                bad = f"expected token {exp_type} at offset {ref['a']}, lexer returned None" + (f" after error {errs[0][0]!r}" if errs else "")
            else:
                if exp_type == "ID":
                    if len(looked) != 1:
                        bad = f"type callback consulted {len(looked)} times for one identifier"
                    elif looked[0][1]:
                        exp_type = "TYPEID"
                elif looked:
                    bad = f"type callback consulted for a {exp_type} token"
                val = tok.value
                span = val.span() if isinstance(val, SymText) else None
                if bad:
                    pass
                elif errs:
                    bad = f"error {errs[0][0]!r} reported although a well-formed {exp_type} starts at offset {ref['a']}"
                elif str(tok.type) != exp_type:
                    bad = f"expected {exp_type}, lexer returned {tok.type}"
                elif span is not None and span != (ref["a"], ref["b"]):
                    bad = f"{exp_type}: expected spelling window[{ref['a']}:{ref['b']}], lexer returned window[{span[0]}:{span[1]}] (longest match / losslessness)"
                elif span is None and not (isinstance(val, str) and val == ref.get("lit")):
                    bad = f"{exp_type}: spelling {val!r} is not the source text"
                elif not eq(tok.lineno, ref["line"]):
                    bad = f"{exp_type}: lineno is not the reference line (l + newlines skipped, re-based by #line)"
                elif not eq(tok.column, ref["col"]):
                    bad = f"{exp_type}: column is not offset - line start + 1"
                elif pos1 != ref["after"][0]:
                    bad = f"{exp_type}: position after the token is {pos1}, expected {ref['after'][0]}"
                elif not eq(line1, ref["after"][1]) or not eq(ls1, ref["after"][2]):
                    bad = f"{exp_type}: line bookkeeping after the token differs from the reference"
                elif (exp_type == "LBRACE" and braces != ["{"]) or (exp_type == "RBRACE" and braces != ["}"]) or (exp_type not in ("LBRACE", "RBRACE") and braces):
                    bad = f"{exp_type}: brace callbacks fired {braces}"
                elif ref["type"] == "PPPRAGMA":
                    ps = ref["pragma_str"]
                    if ps is None:
                        if pending is not None:
                            bad = "PPPRAGMASTR queued for an empty pragma"
                    elif pending is None:
                        bad = "pragma text dropped: no PPPRAGMASTR queued"
                    else:
                        pspan = pending.value.span() if isinstance(pending.value, SymText) else None
                        if str(pending.type) != "PPPRAGMASTR" or pspan != ps:
                            bad = f"PPPRAGMASTR is window[{pspan}] expected window[{ps}] (verbatim rest of the line)"
                        elif not eq(pending.lineno, ref["line"]) or not eq(pending.column, ref["pragma_str_col"]):
                            bad = "PPPRAGMASTR line/column wrong"
                        else:
                            t2 = lx.token()
                            if t2 is not pending or lx._pending_tok is not None:
                                bad = "second token() call after PPPRAGMA does not return the queued PPPRAGMASTR"
                elif pending is not None:
                    bad = "a pending token was queued by a non-pragma token"
                # file name established by the last line directive
                if not bad:
                    f = ref["file"]
                    if isinstance(f, tuple):
                        fspan = file1.span() if isinstance(file1, SymText) else None
                        if fspan != (f[1], f[2]) and not (fspan is not None and fspan[0] == fspan[1] and f[1] == f[2]):
                            bad = f"file name after #line: is window[{fspan}], expected window[{f[1]}:{f[2]}]"
                    elif file1 != f:
                        bad = "file name changed without a #line directive"
        elif ref["kind"] == "error":
            cls += ":" + ref["why"]
            if not errs:
                bad = f"non-token text at offset {ref['at']} ({ref['why']}) was not reported through the error callback"
            elif tok is not None and isinstance(tok.value, SymText) and tok.value.span()[0] <= ref["at"]:
                bad = f"token {tok.type} returned at or before malformed text at offset {ref['at']}"
            elif not eq(errs[0][1], ref["line"]) or not eq(errs[0][2], ref["col"]):
                bad = "error location is not the offending character"
        else:
            cls += ":" + ref["why"]
            if ref.get("expect_error") and not errs:
                bad = "malformed #line / linemarker line accepted without calling the error callback (text on it silently skipped)"
        # (d) progress, always (when the step was cut at the first error the position is that of the error)
        if not bad and not stopped and not (pos1 > 0 or (tok is None and pos1 >= n)):
            bad = "no progress: position did not advance"
        rec = {"cls": cls, "witness": {ref["kind"]: True, cls: True}}
        if bad:
            m = eng.model()
            s = base.witness(m)
            rec["viol"] = {"sig": "lexer-step:" + bad.split(":")[0].split(" at offset")[0][:60], "what": bad, "text": s,
                           "istype": [bool(r) for _, r in looked], "ref": {k: str(v) for k, v in ref.items()}}
            rec["cls"] += "-DIFF"
        elif ref["kind"] == "token" and eng.st.get("paths", 0) % 50 == 0:
            rec["sample"] = {"window": base.witness(eng.model()), "expected": ref["type"], "slice": [ref["a"], ref["b"]]}
        return rec

    return E.Job(name, make_engine, once, split=("input", 2), max_samples=4, max_viol=60)


# ---------------------------------------------------------------- replay (concrete, on the untouched lexer)
REPLAY_CODE = '''
from pycparser.c_lexer import CLexer
text = {text!r}
istype = {istype!r}
errs, looked, braces = [], [], []
def tl(n):
    looked.append(n); return istype[len(looked)-1] if len(looked) <= len(istype) else False
lx = CLexer(lambda m,l,c: errs.append([m,l,c]), lambda: braces.append("{{"), lambda: braces.append("}}"), tl)
lx.input(text, "F0")
lx._lineno = {ell}; lx._line_start = -{delta}
t = lx.token()
RESULT = {{"tok": None if t is None else [t.type, t.value, t.lineno, t.column], "errs": errs, "pos": lx._pos, "line": lx._lineno, "ls": lx._line_start,
          "file": lx.filename, "pending": None if lx._pending_tok is None else [lx._pending_tok.type, lx._pending_tok.value, lx._pending_tok.lineno, lx._pending_tok.column], "looked": looked, "braces": braces}}
'''


def concrete_reference(text, ell, delta):
    old = E.ENG
    E.ENG = symlexer.ConcreteEngine()
    try:
        st = symlexer.concrete_symtext(text, name="w")
        ref = reference_step(st, ell, -delta, "F0")
        out = dict(ref)
        for k in ("line", "col", "pragma_str_col"):
            if k in out and not isinstance(out[k], int):
                out[k] = z3.simplify(z3.substitute(out[k], *[(st.base.chars[i], z3.IntVal(ord(ch))) for i, ch in enumerate(text)])).as_long()
        if "after" in out:
            out["after"] = tuple(
                v if isinstance(v, int) else z3.simplify(z3.substitute(v, *[(st.base.chars[i], z3.IntVal(ord(ch))) for i, ch in enumerate(text)])).as_long() for v in out["after"]
            )
        return out
    finally:
        E.ENG = old


def replay(rp, v):
    """re-run the step concretely on the untouched lexer with l=7, d=3 and compare with the concrete reference"""
    ell, delta = 7, 3
    if v.get("exc"):
        r = rp.ask(op="lex", text=v["text"])
        v["replay_outcome"] = r
        return r.get("outcome") == "exc" and r["exc"]["type"] == v["exc"]
    r = rp.ask(op="exec", code=REPLAY_CODE.format(text=v["text"], istype=v["istype"], ell=ell, delta=delta))
    v["replay_outcome"] = r
    if not isinstance(r, dict) or "tok" not in r:
        return False
    ref = concrete_reference(v["text"], ell, delta)
    v["concrete_ref"] = {k: str(x) for k, x in ref.items()}
    text = v["text"]
    tok = r["tok"]
    if ref["kind"] == "eof":
        return tok is not None or bool(r["errs"]) or r["pos"] < len(text) or r["line"] != ref["line"]
    if ref["kind"] == "token":
        if tok is None or r["errs"]:
            return True
        exp_type = ref["type"]
        if exp_type == "ID" and v["istype"][:1] == [True]:
            exp_type = "TYPEID"
        if exp_type == "ID" and len(r["looked"]) != 1:
            return True
        if ref["type"] != "ID" and r["looked"]:
            return True
        if tok[0] != exp_type or tok[1] != text[ref["a"] : ref["b"]] or tok[2] != ref["line"] or tok[3] != ref["col"]:
            return True
        if r["pos"] != ref["after"][0] or r["line"] != ref["after"][1] or r["ls"] != ref["after"][2]:
            return True
        if ref["type"] == "PPPRAGMA":
            ps = ref["pragma_str"]
            if (ps is None) != (r["pending"] is None):
                return True
            if ps is not None and (r["pending"][0] != "PPPRAGMASTR" or r["pending"][1] != text[ps[0] : ps[1]] or r["pending"][2] != ref["line"] or r["pending"][3] != ref["pragma_str_col"]):
                return True
        elif r["pending"] is not None:
            return True
        want_braces = {"LBRACE": ["{"], "RBRACE": ["}"]}.get(exp_type, [])
        if r["braces"] != want_braces:
            return True
        f = ref["file"]
        if isinstance(f, tuple):
            return r["file"] != text[f[1] : f[2]]
        return r["file"] != f
    if ref["kind"] == "error":
        if not r["errs"]:
            return True
        if tok is not None:
            return False  # where the returned token starts is not visible here; keep to what is certain
        return r["errs"][0][1] != ref["line"] or r["errs"][0][2] != ref["col"]
    if ref["kind"] == "noclaim" and ref.get("expect_error"):
        return not r["errs"]
    return False


def main():
    report = checklib.Report(PID)
    findings = checklib.Findings(PID)
    rp = checklib.Replayer()
    b = BOUNDS[checklib.tier()]
    report.assumptions += [
        "the C regex engine is replaced by an interpreter model of the sre subset used by c_lexer.py (built from the live patterns; validated on every run and on every witness)",
        "reference: reflex (ISO 9899:1999 6.4 + documented extensions) and a reference reading of the skip grammar; a line directive is 'valid' when it has the form # [line] N [\"file\" flags...] with N = 0|[1-9][0-9]*; other '#line'-like lines carry no claim except progress",
        "one inductive step from an arbitrary state; the window is the remaining input, so tokens/layout longer than the window are outside the claim",
        "digraphs/trigraphs are not part of the reference (pycparser does not support them)",
    ]
    try:
        Lmod = symlexer.load()
        nval = symlexer.validate_lexer_translation(Lmod, checklib.repo_test_snippets())
        report.notes.append(f"lexer translator validation: {nval} repository inputs")
        report.functions |= {"pycparser/c_lexer.py:CLexer.token", "pycparser/c_lexer.py:CLexer._match_token", "pycparser/c_lexer.py:CLexer._make_token", "pycparser/c_lexer.py:CLexer._error",
                             "pycparser/c_lexer.py:CLexer._handle_ppline", "pycparser/c_lexer.py:CLexer._handle_pppragma", "pycparser/c_lexer.py:_regex_master/_line_pattern/_pragma_pattern (sre model)"}
        report.bounds.update({"window_full_unicode": b["window"], "directive_window": b["directive"], "directive_alphabet": DIRECTIVE_ALPHABET, "state": "lineno l>=1 and line start -d (d>=0) free integers"})
        cands = {}
        jobs = []
        for n in range(0, b["window"] + 1):
            jobs.append((make_job(Lmod, SymBase(n, name="c", minlen=n), f"step/{n}/unicode"), n))
        red = IntervalSet([(ord(ch), ord(ch)) for ch in DIRECTIVE_ALPHABET])
        for n in range(3, b["directive"] + 1):
            jobs.append((make_job(Lmod, SymBase(n, name="c", minlen=n, alphabet=red), f"directive/{n}", first_char="#"), n))
        # keyword vs identifier for words longer than the general window: the window holds only identifier characters
        # (first one not a digit), so the one token is an identifier or a keyword of up to 16 characters
        # (the longest keyword, _Static_assert, has 14); the paths are the entries of the live keyword table
        import string

        word = IntervalSet([(ord(ch), ord(ch)) for ch in string.ascii_letters + string.digits + "_$"])
        for n in range(b["window"] + 1, 17):
            jobs.append((make_job(Lmod, SymBase(n, name="c", minlen=n, alphabet=word), f"word/{n}", first_char=string.ascii_letters + "_$"), n))
        # longer directive lines with a fixed head and a free tail: '#pragma' / '# pragma' + tail, '#line 1' / '# 1' + tail
        tail = 4 if checklib.tier() == "quick" else 6
        heads = {"pragma": ["#", " \t", "p", "r", "a", "g", "m", "a"], "pragma0": ["#", "p", "r", "a", "g", "m", "a"],
                 "line": ["#", "l", "i", "n", "e", " \t", "12"], "marker": ["#", " \t", "12", " \t", '"', "x", '"'],
                 "marker3flags": ["#", " ", "1", " ", '"', "x", '"', " ", "1", " ", "2", " ", "12"], "line-file": ["#", "l", "i", "n", "e", " ", "1", " ", '"', "x", '"']}
        for hname, head in heads.items():
            n = len(head) + tail
            jobs.append((make_job(Lmod, SymBase(n, name="c", minlen=len(head), alphabet=red), f"directive-tail/{hname}+{tail}", fixed_prefix=head), n))
        # progress after errors on directive lines (steps are not cut at the first error here)
        for n in range(2, min(7, b["directive"]) + 1):
            jobs.append((make_job(Lmod, SymBase(n, name="c", minlen=n, alphabet=red), f"directive-errors/{n}", stop_at_error=False, first_char="#"), n))
        for job, n in jobs:
            res = E.run_job(job, workers=None if n >= 4 else 1)
            report.add_run(job.name, res)
            for v in res.violations:
                cands.setdefault(v["sig"], []).append(v)
        for sig, vs in sorted(cands.items()):
            vs.sort(key=lambda v: (len(v["text"]), v["text"]))
            good = None
            for v in vs[:6]:
                report.replayed += 1
                if replay(rp, v):
                    good = v
                    break
            if good is None:
                report.unreproduced.append({"sig": sig, "text": vs[0]["text"], "what": vs[0]["what"], "outcome": vs[0].get("replay_outcome"), "ref": vs[0].get("concrete_ref")})
                continue
            what = f"{good['what']} on remaining input {good['text']!r}"
            kf = findings.match(sig)
            if kf:
                report.known_hits[sig] = kf["what"]
                continue
            body = REPLAY_CODE.format(text=good["text"], istype=good["istype"], ell=7, delta=3) + f"print(RESULT)\nprint({good['what']!r})\nsys.exit(1)\n"
            report.violations.append({"sig": sig, "what": what, "replay": checklib.write_replay(PID, what, body)})
    finally:
        rp.close()
    return report.finish(findings, required_witnesses=["eof", "token", "error", "token:PPPRAGMA", "token:PPHASH", "token:FLOAT_CONST", "token:ID"])


if __name__ == "__main__":
    checklib.run_main(main)
