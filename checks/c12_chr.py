"""C12, character level: a reused CLexer after input() behaves like a new one.
The real CLexer is driven through a history (a text, then k token() calls, k
symbolic 0..K - so the history may be abandoned anywhere, e.g. between PPPRAGMA
and its PPPRAGMASTR, inside a #line, after an error), then input(T) with a
symbolic window T and one token() step; a fresh lexer does the same step on T
on the same path.  Token (type, spelling slice, line, column), errors, file name
and the state after the step must coincide."""
from __future__ import annotations

import z3

from symx import engine as E
from symx import checklib, symlexer
from symx.symtext import SymBase, SymText
from symx.proxies import SymInt

HISTORIES = [
    "#pragma omp parallel\nint x;",
    "# 7 \"other.h\" 2\nint y;",
    "int a;\n\n\n  b",
    "'",
    "\"abc",
    "#line x\n",
    "{ { typedef int T; T",
    "#pragma\n#pragma once\n",
    "x /* c */",
]
BOUNDS = {"quick": {"calls": 3, "window": 3}, "thorough": {"calls": 4, "window": 4}}


def snapshot(lx, tok, errs):
    def c(x):
        return x

    t = None if tok is None else (str(tok.type), tok.value.span() if isinstance(tok.value, SymText) else tok.value, tok.lineno, tok.column)
    return {"tok": t, "errs": [(m if isinstance(m, str) else str(m), l, col) for m, l, col in errs], "pos": lx._pos, "line": lx._lineno, "ls": lx._line_start,
            "file": lx._filename, "pending": None if lx._pending_tok is None else (str(lx._pending_tok.type), str(lx._pending_tok.value))}


def run(report, findings, rp):
    Lmod = symlexer.load()
    b = BOUNDS[checklib.tier()]
    report.bounds["lexer_reuse"] = {"histories": HISTORIES, "token_calls_before_reuse": f"symbolic 0..{b['calls']}", "input_window": b["window"]}
    cands = {}
    for hi, hist in enumerate(HISTORIES):
        base = SymBase(b["window"], name="c", minlen=0)
        kvar = z3.Int("ncalls")

        def make_engine(base=base):
            eng = E.Engine()
            base.declare(eng)
            eng.declare_fd(("ncalls", 0), kvar, range(0, b["calls"] + 1))
            return eng

        def once(base=base, hist=hist):
            eng = E.cur()
            errs_h, errs_a, errs_b = [], [], []
            cur = {"errs": errs_h}
            lx = Lmod.CLexer(lambda m, l, c: cur["errs"].append((m, l, c)), lambda: None, lambda: None, lambda n: False)
            lx.input(hist, "hist.c")
            k = 0
            while k < b["calls"] and not eng.decide_member(("ncalls", 0), kvar, frozenset([k])):
                lx.token()
                k += 1
            text = SymText(base)
            cur["errs"] = errs_a
            lx.input(text, "t.c")
            ta = lx.token()
            sa = snapshot(lx, ta, errs_a)
            fresh = Lmod.CLexer(lambda m, l, c: errs_b.append((m, l, c)), lambda: None, lambda: None, lambda n: False)
            fresh.input(text, "t.c")
            tb = fresh.token()
            sb = snapshot(fresh, tb, errs_b)
            rec = {"cls": f"calls{k}", "witness": {f"calls-{k}": True}}
            if sa != sb:
                m = eng.model()
                diff = [key for key in sa if sa[key] != sb[key]]
                rec["viol"] = {"sig": "lexer-reuse:" + ",".join(diff), "what": f"reused CLexer differs from a fresh one in {diff}: {str(sa)[:150]} vs {str(sb)[:150]}",
                               "hist": hist, "calls": k, "text": base.witness(m)}
            return rec

        job = E.Job(f"lexer-reuse/h{hi}", make_engine, once, max_viol=10)
        res = E.run_job(job, workers=1)
        report.add_run(job.name, res)
        for v in res.violations:
            cands.setdefault(v["sig"], []).append(v)
    report.functions |= {"pycparser/c_lexer.py:CLexer.input/_init_state/token (sre model)"}
    CODE = '''
from pycparser.c_lexer import CLexer
def snap(lx, t, errs):
    return [None if t is None else [t.type, t.value, t.lineno, t.column], errs, lx._pos, lx._lineno, lx._line_start, lx.filename, None if lx._pending_tok is None else lx._pending_tok.value]
ea, eb = [], []
cur = [[]]
lx = CLexer(lambda m,l,c: cur[0].append([m,l,c]), lambda: None, lambda: None, lambda n: False)
lx.input({hist!r}, "hist.c")
for _ in range({calls}): lx.token()
cur[0] = ea
lx.input({text!r}, "t.c"); a = snap(lx, lx.token(), ea)
f = CLexer(lambda m,l,c: eb.append([m,l,c]), lambda: None, lambda: None, lambda n: False)
f.input({text!r}, "t.c"); b = snap(f, f.token(), eb)
RESULT = {{"reused": a, "fresh": b}}
'''
    for sig, vs in sorted(cands.items()):
        vs.sort(key=lambda v: (len(v["text"]), v["calls"]))
        good = None
        for v in vs[:4]:
            report.replayed += 1
            r = rp.ask(op="exec", code=CODE.format(hist=v["hist"], calls=v["calls"], text=v["text"]))
            if isinstance(r, dict) and "reused" in r and r["reused"] != r["fresh"]:
                good = v
                break
        if good is None:
            report.unreproduced.append({"sig": sig, "hist": vs[0]["hist"], "text": vs[0]["text"], "calls": vs[0]["calls"]})
            continue
        what = f"{good['what']} (history {good['hist']!r}, {good['calls']} token() calls, then input {good['text']!r})"
        kf = findings.match(sig)
        if kf:
            report.known_hits[sig] = kf["what"]
            continue
        body = CODE.format(hist=good["hist"], calls=good["calls"], text=good["text"]) + "print(RESULT)\nsys.exit(1 if RESULT['reused'] != RESULT['fresh'] else 0)\n"
        report.violations.append({"sig": sig, "what": what, "replay": checklib.write_replay("C12", what, body)})
