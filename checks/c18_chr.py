"""C18, character level: non-token text (stray '@', '`', lone backslash, comments,
lone/unterminated quotes, malformed literals) and text on malformed #line lines is
reported through the error callback - with the parser's callback that is a
ParseError - before the lexer moves past it.  Decided by the one-step lexer
harness of C09 (arbitrary state, symbolic window): its obligations for the
reference verdicts 'error' / 'malformed #line' are exactly this claim."""
from __future__ import annotations

from symx import engine as E
from symx import checklib, symlexer
from symx.engine import IntervalSet
from symx.symtext import SymBase
from checks import c09

BOUNDS = {"quick": {"window": 5, "directive": 7}, "thorough": {"window": 7, "directive": 9}}
RELEVANT = ("non-token text", "malformed #line", "token ", "error location", "malformed input")


def run(report, findings, rp):
    Lmod = symlexer.load()
    nval = symlexer.validate_lexer_translation(Lmod, checklib.repo_test_snippets())
    report.notes.append(f"lexer translator validation: {nval} repository inputs")
    b = BOUNDS[checklib.tier()]
    report.bounds["character_level"] = {"window_unicode": b["window"], "window_directive_lines": b["directive"], "directive_alphabet": c09.DIRECTIVE_ALPHABET + "@()",
                                        "claim": "reference verdict 'error' (comment, bad character constant, bad string literal, bad octal, illegal character) or malformed #line line => error callback invoked with the offending location, no token returned at or before it"}
    report.functions |= {"pycparser/c_lexer.py:CLexer.token/_match_token/_handle_ppline/_handle_pppragma/_error (sre model)"}
    red = IntervalSet([(ord(ch), ord(ch)) for ch in c09.DIRECTIVE_ALPHABET + "@()"])
    jobs = [(c09.make_job(Lmod, SymBase(n, name="c", minlen=n), f"chr-step/{n}"), n) for n in range(1, b["window"] + 1)]
    jobs += [(c09.make_job(Lmod, SymBase(n, name="c", minlen=n, alphabet=red), f"chr-directive/{n}", first_char="#"), n) for n in range(3, b["directive"] + 1)]
    cands = {}
    errors_seen = 0
    for job, n in jobs:
        res = E.run_job(job, workers=None if n >= 5 else 1)
        report.add_run(job.name, res)
        errors_seen += sum(v for k, v in res.classes.items() if k.startswith("error") or k.startswith("noclaim:malformed"))
        for v in res.violations:
            if any(k in v["what"] for k in RELEVANT):
                cands.setdefault(v["sig"], []).append(v)
    report.extra["chr_error_classes_checked"] = errors_seen
    if errors_seen:
        report.witnesses["chr-error-paths"] = True
    for sig, vs in sorted(cands.items()):
        vs.sort(key=lambda v: (len(v["text"]), v["text"]))
        good = None
        for v in vs[:5]:
            report.replayed += 1
            if c09.replay(rp, v):
                good = v
                break
        if good is None:
            report.unreproduced.append({"sig": sig, "text": vs[0]["text"], "what": vs[0]["what"]})
            continue
        what = f"{good['what']} on remaining input {good['text']!r}"
        kf = findings.match(sig)
        if kf:
            report.known_hits[sig] = kf["what"]
            continue
        body = c09.REPLAY_CODE.format(text=good["text"], istype=good["istype"], ell=7, delta=3) + f"print(RESULT)\nprint({good['what']!r})\nsys.exit(1)\n"
        report.violations.append({"sig": sig, "what": what, "replay": checklib.write_replay("C18", what, body)})
