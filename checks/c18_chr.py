"""C18, character level: non-token text (stray '@', '`', lone backslash, comments,
lone/unterminated quotes, malformed literals) and text on malformed #line lines is
reported through the error callback - with the parser's callback that is a
ParseError - before the lexer moves past it.  Decided by the one-step lexer
harness of C09 (arbitrary state, symbolic window): its obligations for the
reference verdicts 'error' / 'malformed #line' are exactly this claim."""
from __future__ import annotations

from symx import engine as E
from symx import checklib, symlexer
from symx.engine import IntervalSet
from symx.symtext import SymBase
from checks import c09

BOUNDS = {"quick": {"window": 5, "directive": 7}, "thorough": {"window": 7, "directive": 9}}
RELEVANT = ("non-token text", "malformed #line", "token ", "error location", "malformed input")


def run(report, findings, rp):
    Lmod = symlexer.load()
    nval = symlexer.validate_lexer_translation(Lmod, checklib.repo_test_snippets())
    report.notes.append(f"lexer translator validation: {nval} repository inputs")
    b = BOUNDS[checklib.tier()]
    report.bounds["character_level"] = {"window_unicode": b["window"], "window_directive_lines": b["directive"], "directive_alphabet": c09.DIRECTIVE_ALPHABET + "@()",
                                        "claim": "reference verdict 'error' (comment, bad character constant, bad string literal, bad octal, illegal character) or malformed #line line => error callback invoked with the offending location, no token returned at or before it"}
    report.functions |= {"pycparser/c_lexer.py:CLexer.token/_match_token/_handle_ppline/_handle_pppragma/_error (sre model)"}
    red = IntervalSet([(ord(ch), ord(ch)) for ch in c09.DIRECTIVE_ALPHABET + "@()"])
    jobs = [(c09.make_job(Lmod, SymBase(n, name="c", minlen=n), f"chr-step/{n}"), n) for n in range(1, b["window"] + 1)]
    jobs += [(c09.make_job(Lmod, SymBase(n, name="c", minlen=n, alphabet=red), f"chr-directive/{n}", first_char="#"), n) for n in range(3, b["directive"] + 1)]
    cands = {}
    errors_seen = 0
    for job, n in jobs:
        res = E.run_job(job, workers=None if n >= 5 else 1)
        report.add_run(job.name, res)
        errors_seen += sum(v for k, v in res.classes.items() if k.startswith("error") or k.startswith("noclaim:malformed"))
        for v in res.violations:
            if any(k in v["what"] for k in RELEVANT):
                cands.setdefault(v["sig"], []).append(v)
    report.extra["chr_error_classes_checked"] = errors_seen
    if errors_seen:
        report.witnesses["chr-error-paths"] = True
    for sig, vs in sorted(cands.items()):
        vs.sort(key=lambda v: (len(v["text"]), v["text"]))
        good = None
        for v in vs[:5]:
            report.replayed += 1
            if c09.replay(rp, v):
                good = v
                break
        if good is None:
            report.unreproduced.append({"sig": sig, "text": vs[0]["text"], "what": vs[0]["what"]})
            continue
        what = f"{good['what']} on remaining input {good['text']!r}"
        kf = findings.match(sig)
        if kf:
            report.known_hits[sig] = kf["what"]
            continue
        body = c09.REPLAY_CODE.format(text=good["text"], istype=good["istype"], ell=7, delta=3) + f"print(RESULT)\nprint({good['what']!r})\nsys.exit(1)\n"
        report.violations.append({"sig": sig, "what": what, "replay": checklib.write_replay("C18", what, body)})


# --------------------------------------------------------------------------- injection of non-token characters into accepted programs
PROGRAMS = [
    "int *p = &x, (*fp)(int), a[3];",
    "void f(int *q, char (*g)(void)) { return; }",
    "struct s { int *m; } v = { 0 };",
    "typedef int T; T (*h(T *a))[2];",
    "int f(int (*)(int), int *, ...);",
    "void k(void) { x = (int *) p + *q; if (x) y: x++; }",
    "enum e { A = 1, B } z; int w = sizeof(int *);",
]
JUNK = "@`\\"


LOCATE_REPLAY = '''
from pycparser.c_parser import CParser, ParseError
from pycparser.c_lexer import CLexer
text = {text!r}
where = {where!r}
class LocLexer(CLexer):
    def __init__(self, error_func, *a, **k):
        self.reported = []
        def ef(msg, line, column):
            self.reported.append((line, column)); return error_func(msg, line, column)
        super().__init__(ef, *a, **k)
p = CParser(lexer=LocLexer)
RESULT = {{"mislocated": False}}
try:
    p.parse(text, "f.c")
except ParseError as e:
    RESULT = {{"mislocated": bool(p.clex.reported) and not str(e).startswith(where), "msg": str(e), "reported": p.clex.reported}}
'''


def run_injection(report, findings, rp, pid="C18", locate=False):
    """Every position of every program gets one symbolic character from JUNK (characters that are part of
    no C token outside literals); the real lexer (sre model) feeds the real parser.  Whatever look-ahead,
    speculative parsing or error handling does, the result must be a ParseError."""
    import z3

    from symx import symparser
    from symx.engine import IntervalSet
    from symx.symtext import SymBase, SymText

    Lmod = symlexer.load()
    P = symparser.load()
    junk = IntervalSet([(ord(c), ord(c)) for c in JUNK])

    class LocLexer(Lmod.CLexer):
        """the real lexer; remembers whether it called the error callback"""

        def __init__(self, error_func, *a, **k):
            self.reported = []

            def ef(msg, line, column):
                self.reported.append((line, column))
                return error_func(msg, line, column)

            super().__init__(ef, *a, **k)

    cands = {}
    total = 0
    for prog in PROGRAMS:
        try:
            P.CParser().parse(prog, "f.c")
        except Exception as e:
            report.harness_errors.append(f"injection base program does not parse: {prog!r}: {e}")
            continue
        for pos in range(len(prog) + 1):
            n = len(prog) + 1
            base = SymBase(n, name="j", minlen=n)
            chars = list(prog[:pos]) + [None] + list(prog[pos:])

            def make_engine(base=base, chars=chars):
                eng = E.Engine()
                for i, ch in enumerate(chars):
                    if ch is None:
                        eng.base_dom[(base.name, i)] = junk
                        eng.solver.add(eng.iv_expr((base.name, i), base.chars[i], junk))
                    else:
                        eng.base_dom[(base.name, i)] = IntervalSet.of(ord(ch))
                        eng.solver.add(base.chars[i] == ord(ch))
                eng.base_dom[(base.name, "len")] = frozenset([len(chars)])
                eng.solver.add(base.length == len(chars))
                return eng

            line = prog[:pos].count("\n") + 1
            col = pos - (prog.rfind("\n", 0, pos) + 1) + 1

            def once(base=base, where=f"f.c:{line}:{col}: "):
                eng = E.cur()
                parser = P.CParser(lexer=LocLexer)
                try:
                    parser.parse(SymText(base), "f.c")
                except P.ParseError as e:
                    if locate and parser.clex.reported and not str(e).startswith(where):
                        # C11: once the lexer has reported the character, the error that reaches the caller is located there
                        # (the parser may legitimately fail earlier, before the lexer gets to the character)
                        return {"cls": "MISLOCATED", "viol": {"sig": "junk-character-mislocated", "what": f"the lexer reported the stray character at {where[:-2]} but the error that escapes says {str(e)[:60]!r}", "text": base.witness(eng.model()), "where": where}}
                    return {"cls": "rejected" + ("-after-lexer-report" if parser.clex.reported else ""), "witness": {"injection-rejected": True}}
                except (E.HarnessError, E.Abort):
                    raise
                except RecursionError:
                    raise
                except Exception as e:
                    return {"cls": "other-exception(C06's subject)"}
                if locate:
                    return {"cls": "accepted(C18's subject)"}
                m = eng.model()
                return {"cls": "ACCEPTED", "viol": {"sig": "non-token-character-accepted", "what": "input containing a character that is part of no C token was accepted", "text": base.witness(m)}}

            job = E.Job(f"inject:{prog[:20]}@{pos}", make_engine, once, max_samples=0)
            res = E.run_job(job, workers=1)
            total += res.paths
            report.states += res.paths
            report.transitions += res.stats.get("decisions", 0)
            report.tsolver += res.tsolver
            for k, v in res.stats.items():
                if k.startswith("q_") or k == "cache_hits":
                    report.queries.inc(k, v)
            if not res.exhaustive:
                report.exhaustive = False
            for k, w in res.witnesses.items():
                report.witnesses.setdefault(k, w)
            for v in res.violations:
                cands.setdefault(v["sig"], []).append(v)
    report.extra["injection" + ("-located" if locate else "")] = {"programs": PROGRAMS, "characters": JUNK, "positions": "every character position", "paths": total}
    for sig, vs in sorted(cands.items()):
        vs.sort(key=lambda v: len(v["text"]))
        good = None
        for v in vs[:4]:
            report.replayed += 1
            r = rp.ask(op="parse", text=v["text"], filename="f.c")
            if not locate and r.get("outcome") == "ast" and any(c in v["text"] for c in JUNK):
                good = v
                break
            if locate:
                rr = rp.ask(op="exec", code=LOCATE_REPLAY.format(text=v["text"], where=v["where"]))
                if isinstance(rr, dict) and rr.get("mislocated"):
                    good = v
                    break
        if good is None:
            report.unreproduced.append({"sig": sig, "text": vs[0]["text"]})
            continue
        what = f"{good['what']}: {good['text']!r}"
        kf = findings.match(sig, good["text"])
        if kf:
            report.known_hits[kf.get("id", sig)] = kf["what"]
            continue
        if locate:
            body = LOCATE_REPLAY.format(text=good["text"], where=good["where"]) + "print(RESULT)\nsys.exit(1 if RESULT['mislocated'] else 0)\n"
        else:
            body = (f"from pycparser.c_parser import CParser, ParseError\ntext = {good['text']!r}\n"
                    "try:\n    CParser().parse(text, 'f.c')\nexcept ParseError as e:\n    print('rejected (ok):', e); sys.exit(0)\n"
                    "print('VIOLATION reproduced: accepted', repr(text)); sys.exit(1)\n")
        report.violations.append({"sig": sig, "what": what, "replay": checklib.write_replay(pid, what, body)})
