"""C06, character level: the real lexer (sre model) feeding the real parser on
symbolic text - 'raw character noise'.  Every string of <= N code points from
the whole of Unicode."""
from __future__ import annotations

import re

from symx import engine as E
from symx import checklib, symlexer, symparser, tokharness
from symx.symtext import SymBase, SymText

BOUNDS = {"quick": 4, "thorough": 5}
FILENAME = "f.c"
# the file name is f.c, or whatever a #line / linemarker in the input established (a slice of the input, possibly empty)
LOC = re.compile(r"^(f\.c|\x01S[^\x02]*\x02)(:(\d+|\x01I[^\x02]*\x02)(:(\d+|\x01I[^\x02]*\x02))?)?: ")


def loc_ok_concrete(msg, text):
    if re.match(r"^f\.c(:\d+(:\d+)?)?: ", msg):
        return True
    if "#" in text:
        # a line directive may have renamed the file: any name that occurs in the input between quotes
        m = re.match(r"^(.*?)(:\d+(:\d+)?)?: ", msg, re.S)
        return bool(m) and ('"' + m.group(1) + '"') in text
    return False


FRAME_WINDOW = {"quick": 4, "thorough": 5}
FRAME_ALPHABET = "0123789abfxXuUlLeEpP.+-'\"\\ "
FRAMES = [("int x=", ";"), ("int x[", "];"), ("char*s=\"a\"", ";"), ("void f(void){x=1", ";}"), ("# 1 \"f.c\"", "\nint x;"), ("#line 1", "\nint x;"), ("enum e{A=", "};")]


def once_on(P, Lmod, base):
    eng = E.cur()
    parser = P.CParser(lexer=Lmod.CLexer)
    try:
        parser.parse(SymText(base), FILENAME)
    except P.ParseError as e:
        if LOC.match(str(e)) or re.match(r"^(.*?)(:\d+(:\d+)?)?: ", str(e), re.S):
            # framed windows may rename the file through a directive: the replay applies loc_ok_concrete
            return {"cls": "ParseError", "witness": {"chr-ParseError": True}}
        sig = tokharness.exc_signature(e)
        return {"cls": "badloc", "viol": {"sig": "badloc:" + sig["sig"], "kind": "badloc", "text": base.witness(eng.model())}}
    except RecursionError:
        return {"cls": "RecursionError"}
    except E.HarnessError:
        raise
    except Exception as e:
        sig = tokharness.exc_signature(e)
        return {"cls": "OTHER:" + sig["type"], "viol": {"sig": sig["sig"], "kind": "exc", "exc": sig, "text": base.witness(eng.model())}}
    return {"cls": "accept", "witness": {"chr-accept": True}}


def run(report, findings, rp):
    Lmod = symlexer.load()
    P = symparser.load()
    nval = symlexer.validate_lexer_translation(Lmod, checklib.repo_test_snippets())
    report.notes.append(f"lexer translator validation: {nval} repository inputs")
    N = BOUNDS[checklib.tier()]
    report.bounds["character_level"] = {"max_code_points": N, "alphabet": "all of Unicode", "outside": "longer strings (token-level run covers longer token sequences)"}
    cands = {}
    for n in range(0, N + 1):
        base = SymBase(n, name="c", minlen=n)

        def make_engine(base=base):
            eng = E.Engine()
            base.declare(eng)
            return eng

        def once(base=base):
            eng = E.cur()
            parser = P.CParser(lexer=Lmod.CLexer)
            try:
                parser.parse(SymText(base), FILENAME)
            except P.ParseError as e:
                if LOC.match(str(e)):
                    return {"cls": "ParseError", "witness": {"chr-ParseError": True}}
                sig = tokharness.exc_signature(e)
                return {"cls": "badloc", "viol": {"sig": "badloc:" + sig["sig"], "kind": "badloc", "text": base.witness(eng.model())}}
            except RecursionError:
                return {"cls": "RecursionError"}
            except E.HarnessError:
                raise
            except Exception as e:
                sig = tokharness.exc_signature(e)
                return {"cls": "OTHER:" + sig["type"], "viol": {"sig": sig["sig"], "kind": "exc", "exc": sig, "text": base.witness(eng.model())}}
            return {"cls": "accept", "witness": {"chr-accept": True}}

        job = E.Job(f"chars/{n}", make_engine, once, split=("input", 1), max_viol=30)
        res = E.run_job(job, workers=None if n >= 3 else 1)
        report.add_run(job.name, res)
        for v in res.violations:
            cands.setdefault(v["sig"], []).append(v)
    # framed windows: a fixed accepted frame with a window of free characters in it, real lexer + real parser;
    # reaches the code that looks INSIDE token spellings (constants, string pieces, line-directive payloads)
    from symx.engine import IntervalSet

    W = FRAME_WINDOW[checklib.tier()]
    lit = IntervalSet([(ord(ch), ord(ch)) for ch in FRAME_ALPHABET])
    report.bounds["framed_windows"] = {"frames": [f"{a}<window>{b}" for a, b in FRAMES], "window_max": W, "window_alphabet": FRAME_ALPHABET}
    for fi, (pre, suf) in enumerate(FRAMES):
        for n in range(1, W + 1):
            total = len(pre) + n + len(suf)
            base = SymBase(total, name="c", minlen=total)
            fixed = list(pre) + [None] * n + list(suf)

            def make_engine(base=base, fixed=fixed):
                eng = E.Engine()
                for i, ch in enumerate(fixed):
                    d = lit if ch is None else IntervalSet.of(ord(ch))
                    eng.base_dom[(base.name, i)] = d
                    eng.solver.add(eng.iv_expr((base.name, i), base.chars[i], d))
                eng.base_dom[(base.name, "len")] = frozenset([len(fixed)])
                eng.solver.add(base.length == len(fixed))
                return eng

            job = E.Job(f"frame{fi}/{n}:{pre}<{n}>{suf}".replace("\n", "\\n"), make_engine, (lambda base=base: once_on(P, Lmod, base)), split=("input", len(pre) + 1), max_viol=30)
            res = E.run_job(job, workers=None if n >= 3 else 1)
            report.add_run(job.name, res)
            for v in res.violations:
                cands.setdefault(v["sig"], []).append(v)
    report.functions |= {"pycparser/c_lexer.py:CLexer.token/_match_token/_handle_ppline/_handle_pppragma (sre model)"}
    for sig, vs in sorted(cands.items()):
        vs.sort(key=lambda v: (len(v["text"]), v["text"]))
        good = None
        for v in vs[:3]:
            report.replayed += 1
            r = rp.ask(op="parse", text=v["text"], filename=FILENAME)
            v["replay_outcome"] = r
            if (v["kind"] == "exc" and r.get("outcome") == "exc" and r["exc"]["type"] == v["exc"]["type"]) or (
                v["kind"] == "badloc" and r.get("outcome") == "ParseError" and not loc_ok_concrete(r["msg"], v["text"])
            ):
                good = v
                break
        if good is None:
            report.unreproduced.append({"sig": sig, "text": vs[0]["text"], "outcome": vs[0].get("replay_outcome")})
            continue
        what = f"{sig} on input {good['text']!r}"
        kf = findings.match(sig)
        if kf:
            report.known_hits[sig] = kf["what"]
            continue
        body = (f"from pycparser.c_parser import CParser, ParseError\ntext = {good['text']!r}\n"
                "try:\n    CParser().parse(text, 'f.c')\nexcept ParseError as e:\n    import re\n    sys.exit(0 if re.match(r'^f\\.c(:\\d+(:\\d+)?)?: ', str(e)) else 1)\n"
                "except RecursionError:\n    sys.exit(0)\nexcept Exception as e:\n    print('VIOLATION reproduced:', type(e).__name__, e); sys.exit(1)\nsys.exit(0)\n")
        report.violations.append({"sig": sig, "what": what, "replay": checklib.write_replay("C06", what, body)})
