"""C07 - generated C re-parses to the same AST (parse . generate . parse = parse).

The accepted paths of the expression / declaration / statement templates (those
of C02, C03, C05, with one hole less in the quick tier) are the classes of
programs.  On every accepted path the REAL CGenerator runs on the symbolic AST
inside the engine, for both reduce_parentheses settings: whatever it inspects
(operator spellings through its precedence table, names it concatenates, node
classes) forks the path, so every class of programs the generator can tell
apart gets its own solver witness.  For each such class the witness is rendered
and the untouched package does parse -> generate -> parse -> generate
concretely (real lexer): the generated text must equal the in-engine text, the
second AST must equal the first in every slot but coord, and the second
generation must equal the first character for character.  Any exception of the
generator is a violation.  (Classes by solver, equality by execution: weaker
than a symbolic re-parse, and said so in the manifest.)
"""
from __future__ import annotations

import io

from symx import engine as E
from symx import checklib, loader, symparser, toklex, tokharness, diffharness as D
from symx.tokharness import Ctx, PatCtx
from checks import c02, c03, c05

PID = "C07"


def structural(node, c_ast):
    if node is None:
        return None
    if isinstance(node, list):
        return [structural(x, c_ast) for x in node]
    if not isinstance(node, c_ast.Node):
        return node
    return (type(node).__name__,) + tuple((n, structural(getattr(node, n), c_ast)) for n in node.__slots__ if n not in ("coord", "__weakref__"))


def first_diff(a, b, path="ast"):
    """first difference of two structural() values"""
    is_node = lambda x: isinstance(x, tuple) and x and isinstance(x[0], str) and all(isinstance(y, tuple) and len(y) == 2 for y in x[1:])
    if is_node(a) or is_node(b):
        if not (is_node(a) and is_node(b)) or a[0] != b[0]:
            return f"{path}: {a[0] if is_node(a) else a!r} vs {b[0] if is_node(b) else b!r}"
        for (fa, va), (fb, vb) in zip(a[1:], b[1:]):
            d = first_diff(va, vb, f"{path}/{a[0]}.{fa}")
            if d:
                return d
        return None
    if isinstance(a, list) or isinstance(b, list):
        if not (isinstance(a, list) and isinstance(b, list)) or len(a) != len(b):
            return f"{path}: list of {len(a) if isinstance(a, list) else a!r} vs {len(b) if isinstance(b, list) else b!r}"
        for i, (x, y) in enumerate(zip(a, b)):
            d = first_diff(x, y, f"{path}[{i}]")
            if d:
                return d
        return None
    return None if a == b else f"{path}: {a!r} vs {b!r}"


def roundtrip(text):
    """concrete parse -> generate -> parse -> generate on the untouched modules; returns list of problems"""
    NP = loader.native("c_parser")
    NG = loader.native("c_generator")
    c_ast = loader.native("c_ast")
    try:
        a1 = NP.CParser().parse(text, "f.c")
    except Exception as e:
        return None, [("noparse", f"witness does not parse: {type(e).__name__}: {e}")]
    out = []
    texts = {}
    for rp in (False, True):
        tag = f"reduce_parentheses={rp}"
        try:
            g1 = NG.CGenerator(reduce_parentheses=rp).visit(a1)
        except Exception as e:
            sig = tokharness.exc_signature(e)
            out.append(("gen-exception:" + sig["sig"], f"CGenerator({tag}) raised {type(e).__name__}: {e}"))
            continue
        texts[rp] = g1
        try:
            a2 = NP.CParser().parse(g1, "f.c")
        except Exception as e:
            if _shared_specifier_hidden(a1, c_ast):
                out.append(("declarator-hides-typedef-of-shared-specifiers", f"generated text ({tag}) does not parse: {type(e).__name__}: {e} -- generated {g1!r}"))
                continue
            out.append(("reparse-fails" + _reparse_sig(str(e), g1), f"generated text ({tag}) does not parse: {type(e).__name__}: {e} -- generated {g1!r}"))
            continue
        d = first_diff(structural(a1, c_ast), structural(a2, c_ast))
        if d and _shared_specifier_hidden(a1, c_ast):
            out.append(("declarator-hides-typedef-of-shared-specifiers", f"second AST differs ({tag}) at {d} -- generated {g1!r}"))
            continue
        if d:
            out.append(("ast-differs:" + _sigpath(d), f"second AST differs ({tag}) at {d} -- generated {g1!r}"))
            continue
        try:
            g2 = NG.CGenerator(reduce_parentheses=rp).visit(a2)
        except Exception as e:
            out.append(("gen2-exception", f"second generation raised {type(e).__name__}: {e}"))
            continue
        if g2 != g1:
            out.append(("text-differs", f"second generation differs ({tag}): {g1!r} vs {g2!r}"))
    return texts, out


def _shared_specifier_hidden(ast, c_ast):
    """True when some declaration 'SPEC d1, d2;' has a declarator d1 that re-declares a typedef name used in SPEC
    (e.g. 'T T, x;'): the AST has one Decl per declarator and no record of the grouping, so the generator must
    print 'T T; T x;', where the second T is no longer a type.  Recognised on the AST: two sibling declarations
    whose base type nodes have the same coordinate (one specifier token) and the earlier one's name occurs as a
    type name inside the later one's type."""

    def base(t):
        while t is not None and not isinstance(t, (c_ast.IdentifierType, c_ast.Struct, c_ast.Union, c_ast.Enum)):
            t = getattr(t, "type", None)
        return t

    def type_names(n, acc):
        if isinstance(n, c_ast.IdentifierType):
            acc.update(n.names)
        for _, c in (n.children() if n is not None else []):
            type_names(c, acc)
        return acc

    def walk(n):
        if n is None:
            return False
        for field in ("ext", "block_items", "decls", "stmts"):
            items = getattr(n, field, None) if field in getattr(n, "__slots__", ()) else None
            if isinstance(items, list):
                ds = [d for d in items if isinstance(d, (c_ast.Decl, c_ast.Typedef))]
                for i, d1 in enumerate(ds):
                    b1 = base(d1.type)
                    for d2 in ds[i + 1:]:
                        b2 = base(d2.type)
                        if b1 is not None and b2 is not None and b1.coord is not None and str(b1.coord) == str(b2.coord) and d1.name and d1.name in type_names(d2.type, set()):
                            return True
        return any(walk(c) for _, c in n.children())

    try:
        return walk(ast)
    except Exception:
        return False


def _reparse_sig(msg, text):
    """what the second parse complained about (identifiers and numbers abstracted) and the first word of the
    generated line it points into: separates unrelated causes of 'does not re-parse'"""
    import re

    m = re.match(r"^[^:]*:(\d+):(\d+): (.*)$", msg)
    what = m.group(3) if m else msg.split(": ", 1)[-1]
    what = re.sub(r"\b[A-Za-z_]\w*$", "ID", what) if what.startswith("before: ") and not re.search(r"before: (if|else|for|while|do|switch|case|default|return|sizeof|int|struct|union|enum|typedef|_\w+)$", what) else what
    what = re.sub(r"\b\d\w*$", "NUM", what)
    first = ""
    if m:
        lines = text.split("\n")
        ln = int(m.group(1)) - 1
        if 0 <= ln < len(lines):
            w = lines[ln].split()
            first = w[0] if w else ""
            if re.fullmatch(r"[A-Za-z_]\w*", first) and first not in ("if", "else", "for", "while", "do", "switch", "case", "default", "return", "struct", "union", "enum", "typedef", "int", "char", "void"):
                first = "ID"
            first = re.sub(r"\(.*$", "(", first)
    return f":{what[:40]}:{first[:12]}"


def _sigpath(d):
    """last two 'Class.field' steps of the path of the difference, indices removed"""
    import re

    p = re.sub(r"\[\d+\]", "", d.split(": ")[0])
    parts = [x for x in p.split("/") if x and x != "ast"]
    return "/".join(parts[-2:])


def contexts(tier):
    q = tier == "quick"
    out = []
    for c, n in c02.contexts(tier) + c03.contexts(tier) + c05.contexts(tier):
        if isinstance(c, PatCtx):
            if "+pragma" in c.name and q and not c.name.split("@")[0].endswith(("0", "8", "16")):
                continue
            out.append((PatCtx("rt:" + c.name, c.prefix, " ".join(c.pattern), c.suffix, c.classes), 0))
        else:
            out.append((Ctx("rt:" + c.name, c.prefix, c.suffix, domain=c.domain), max(1, n - 1) if q else n))
    # expressions in constant-expression / condition positions, statement expressions, _Atomic(...) in type names
    cls = {"?V": ["1", "x"], "?W": ["2u", "T"], "?S": [",", "="],
           # statement heads (multi-token hole classes), static assertions, declarations sharing a specifier list
           "?K": ["1", "07", "0", "0x1F", "0xFuL", "0b1", "2u", "1.0", "1.0f", "2e3F", "0x1p0", "'c'", '"s"'], "?F": ["x", "p1", "e1"],
           "?G": ["-", "+", "&", "*", "--", "++", "!", "~"], "?B": ["-", "+", "&", "*", "&&", "/"],
           "?Y": ["int T", "T x", "void", "int ( T )", "T T", "int ( * T ) ( T x )", "int x [ sizeof ( T ) ]"],
           "?H": ["if ( x )", "else", "while ( x )", "for ( ; ; )", "for ( ( { 1 ; } ) ; ( { 1 ; } ) ; ( { 1 ; } ) )", "do", "x :", "T :", "case 1 :", "default :", "switch ( x )", ""],
           "?A": ['_Static_assert ( 1 , "s" ) ;', "_Static_assert ( 1 ) ;", 'struct { _Static_assert ( 1 , L"w" "s" ) ; int x ; } y ;', "x ;", "int y ;", ";", "{ }"],
           "?D": ["T T , x ;", "T x , T ;", "T T , * x , y [ sizeof ( T ) ] ;", "T * T , x ;", "typedef T T , x ;", "T x = sizeof ( T ) , T ;", "struct x { T T ; T y ; } T , y ;", "enum { y , T } x ; T y ;"],
           }
    extra = [
        (c05.FN, "switch ( x ) { case ( ?V ?S x ) : ; default : ; }", ["}"]),
        (c02.PRE, "struct y { int x : ( ?V , 2u ) ; } ;", []),
        (c02.PRE, "enum y { x = ( ?V , 2u ) , y } ;", []),
        (c02.PRE, "_Static_assert ( ( ?V , 2u ) , \"s\" ) ;", []),
        (c02.PRE, "_Alignas ( ( ?V , 2u ) ) int x ;", []),
        (c02.PRE, "int x [ 1 ] = { [ ( ?V , 2u ) ] = 1 , . y = ( 1 , x ) } ;", []),
        (c05.FN, "return ( { ?V ; } ) ; if ( ( { ?V ; } ) ) ; while ( ( { 1 ; } ) ) ; do ; while ( ( { 1 ; } ) ) ; switch ( ( { 1 ; } ) ) ;", ["}"]),
        (c05.FN, "x = ( { 1 ; } ) ?S ( { x ; } ) ; x ( ( { 1 ; } ) ) ; return x , ?V ;", ["}"]),
        (c02.PRE, "int x = sizeof ( _Atomic ( ?W ) ) + _Alignof ( _Atomic ( ?W * ) ) ;", []),
        (c02.PRE, "void y ( _Atomic ( ?W ) , _Atomic ( ?W * ) const , _Atomic ( int ) x ) ;", []),
        (c05.FN, "x = ( _Atomic ( ?W ) ) ?V ;", ["}"]),
        (c05.FN, "switch ( x ) { ?H ?A ?H ?A while ( x ) ; }", ["}"]),
        (c05.FN, "?D T ;", ["}"]),
        (c05.FN, "{ ?D } T * x ;", ["}"]),
        (c02.PRE, 'char x [ ] = "s" L"w" , y [ ] = u8"s" "s" "s" ;', []),
        # definitions without declaration specifiers (implicit int, accepted by pycparser): printed with 'int', must re-parse alike
        (c02.PRE, "y ( ?Y ) { T * x ; ( T ) - x ; sizeof ( T ) ; } static x ( ?Y , int y ) { T * y ; }", []),
        # tokens that must not be glued together by the generator: constant . member, - -x, + +x, & &x, x - -y, x + +y, x & &y
        (c05.FN, "x = ?K . ?F + ?K . ?F . ?F ;", ["}"]),
        (c05.FN, "x = ?G ?G ?V ?B ?G ?G ?V ;", ["}"]),
    ]
    for i, (pre, pat, suf) in enumerate(extra):
        out.append((PatCtx(f"rt:extra{i}:{pat}", pre, pat, suf, cls), 0))
    return out


def main():
    report = checklib.Report(PID)
    findings = checklib.Findings(PID)
    report.assumptions += [
        "classes of programs = feasible accepted paths of the real parser over the C02/C03/C05 templates, further split by what the real CGenerator inspects when run on the symbolic AST (both configurations)",
        "one solver witness per class is rendered and round-tripped concretely on the untouched modules through the real lexer; equality of trees and texts is ordinary execution",
        "the repository's C corpus is far beyond the bounds and is not covered",
    ]
    P = symparser.load()
    nval = checklib.validate_parser_translation(P)
    report.notes.append(f"translator validation: {nval} repository test inputs")
    NG = loader.native("c_generator")
    # p1 / e1: member names that would glue with a preceding constant into a (hex) floating constant
    alpha = toklex.full_alphabet(idents=("IDENT:x", "IDENT:y", "IDENT:T", "IDENT:p1", "IDENT:e1"))
    seen_text = set()

    def path_fn(Lex, tpl):
        eng = E.cur()
        impl = D.run_parser(P, Lex, tpl)
        if impl[0] != "ast":
            return {"cls": "rejected"}
        ast = impl[1]
        gen_exc = None
        for rp in (False, True):
            try:
                NG.CGenerator(reduce_parentheses=rp).visit(ast)
            except (E.HarnessError, E.Abort):
                raise
            except RecursionError:
                raise
            except Exception as e:  # the concrete run below reports it with the real traceback
                gen_exc = e
        m = eng.model()
        toks = tpl.witness(m)
        text = toklex.render(toks)
        rec = {"cls": "accepted", "witness": {"accepted": True}}
        if text in seen_text:
            rec["cls"] = "accepted-duplicate-witness"
            return rec
        seen_text.add(text)
        texts, probs = roundtrip(text)
        if probs:
            rec["viol"] = [{"sig": "roundtrip:" + s, "what": w, "text": text, "toks": toks} for s, w in probs if s != "noparse"]
            if not rec["viol"]:
                del rec["viol"]
                rec["cls"] = "witness-not-parsed-by-real-lexer"
            else:
                rec["cls"] = "accepted-ROUNDTRIP-FAILS"
        else:
            rec["count"] = {"roundtrips_ok": 1}
            if len(seen_text) % 200 == 1:
                rec["sample"] = {"source": text.strip(), "generated": texts.get(False, "").strip()}
        return rec

    ctxs = contexts(checklib.tier())
    report.bounds["contexts"] = {c.name: (n if not isinstance(c, PatCtx) else "pattern") for c, n in ctxs if "+pragma" not in c.name}
    bounds = {c.name: n for c, n in ctxs}
    cands = tokharness.run_contexts(report, alpha, [c for c, _ in ctxs], lambda c: bounds[c.name], path_fn, parallel_from=4, pat_parallel_from=3, job_kw={"max_viol": 80})
    pr = [r for r in report.runs if "+pragma" in r["name"]]
    report.runs = [r for r in report.runs if "+pragma" not in r["name"]]
    report.extra["pragma_insertion_templates"] = {"templates": len(pr), "paths": sum(r["paths"] for r in pr)}
    report.extra["roundtrips_ok"] = sum(r.get("extra", {}).get("roundtrips_ok", 0) for r in report.runs + pr)
    report.functions |= {"pycparser/c_generator.py:CGenerator.* (run on symbolic ASTs and concretely)"}
    rp = checklib.Replayer()
    try:
        for sig, vs in sorted(cands.items()):
            vs.sort(key=lambda v: (len(v["toks"]), v["text"]))
            good = None
            for v in vs[:3]:
                report.replayed += 1
                r = rp.ask(op="roundtrip", text=v["text"])
                v["replay_outcome"] = r
                bad = False
                if r.get("outcome") == "ok":
                    for cfg in r["configs"].values():
                        if "gen_exc" in cfg or "reparse_exc" in cfg or cfg.get("same_ast") is False or cfg.get("same_text") is False or "gen2_exc" in cfg:
                            bad = True
                if bad:
                    good = v
                    break
            if good is None:
                report.unreproduced.append({"sig": sig, "text": vs[0]["text"], "what": vs[0]["what"], "outcome": str(vs[0].get("replay_outcome"))[:300]})
                continue
            what = f"[{sig}] {good['what']} -- source {good['text']!r} ({len(vs)} classes)"
            kf = findings.match(sig, good["text"])
            if kf:
                report.known_hits[kf.get("id", sig)] = f"{kf['what']} [e.g. {good['text'].strip()!r}]"
                continue
            body = (
                "from pycparser.c_parser import CParser\nfrom pycparser.c_generator import CGenerator\n"
                f"text = {good['text']!r}\n"
                "def dump(n):\n    import io\n    b = io.StringIO(); n.show(buf=b, attrnames=True, nodenames=True); return b.getvalue()\n"
                "a1 = CParser().parse(text)\nbad = []\n"
                "for rp in (False, True):\n"
                "    try:\n        g1 = CGenerator(reduce_parentheses=rp).visit(a1); a2 = CParser().parse(g1); g2 = CGenerator(reduce_parentheses=rp).visit(a2)\n"
                "    except Exception as e:\n        bad.append((rp, type(e).__name__, str(e))); continue\n"
                "    if dump(a1) != dump(a2) or g1 != g2: bad.append((rp, g1, g2))\n"
                "print(bad); sys.exit(1 if bad else 0)\n"
            )
            report.violations.append({"sig": sig, "what": what, "replay": checklib.write_replay(PID, what, body)})
    finally:
        rp.close()
    return report.finish(findings, required_witnesses=["accepted"])


if __name__ == "__main__":
    checklib.run_main(main)
