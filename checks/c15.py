"""C15 - ASTs survive repr/eval, pickle and deepcopy unchanged.  (Weak claim.)

pickle, copy.deepcopy, repr of str and eval are CPython built-ins and cannot be
executed symbolically; pycparser's side is the __slots__ layout, Node.__repr__
and the Coord dataclass.  What the solver decides here is WHICH AST SHAPES exist:
the accepted paths of the real parser over the expression / declaration /
statement templates (every node class, empty lists, absent children, attributes
holding nodes such as Decl.align, string and character constants with quotes,
backslashes and non-ASCII characters are in the alphabets).  For one witness per
shape the untouched package parses the text and the tree is pushed through
eval(repr(.)), pickle protocols 2..HIGHEST and copy.deepcopy: the rebuilt tree must
be structurally identical (coordinates too, except through repr which does not
carry them), share no node with the original, and generate the same C text; the
original must generate the same text before and after.  Universality over string
contents is not claimed.
"""
from __future__ import annotations

import copy
import pickle

from symx import engine as E
from symx import checklib, loader, symparser, toklex, tokharness, diffharness as D
from symx.tokharness import Ctx, PatCtx
from checks import c02, c03, c05

PID = "C15"


def structural(node, c_ast, coords):
    if node is None:
        return None
    if isinstance(node, list):
        return [structural(x, c_ast, coords) for x in node]
    if not isinstance(node, c_ast.Node):
        return node
    out = [type(node).__name__]
    for n in node.__slots__:
        if n == "__weakref__":
            continue
        if n == "coord":
            if coords:
                c = node.coord
                out.append(("coord", None if c is None else (c.file, c.line, c.column)))
            continue
        out.append((n, structural(getattr(node, n), c_ast, coords)))
    return out


def ids(node, c_ast, acc):
    if isinstance(node, list):
        for x in node:
            ids(x, c_ast, acc)
    elif isinstance(node, c_ast.Node):
        acc.add(id(node))
        for n in node.__slots__:
            if n not in ("coord", "__weakref__"):
                ids(getattr(node, n), c_ast, acc)
        if node.coord is not None:
            acc.add(id(node.coord))
    return acc


def survive(text):
    """problems of the concrete tree of `text` (list of (sig, what))"""
    NP = loader.native("c_parser")
    NG = loader.native("c_generator")
    c_ast = loader.native("c_ast")
    try:
        ast = NP.CParser().parse(text, "f.c")
    except Exception:
        return None
    out = []
    try:
        g0 = NG.CGenerator().visit(ast)
    except Exception:
        g0 = None  # generator failures are C07's subject
    s0 = structural(ast, c_ast, True)
    s0n = structural(ast, c_ast, False)
    orig_ids = ids(ast, c_ast, set())
    copies = []
    try:
        ns = {k: v for k, v in vars(c_ast).items() if isinstance(v, type)}
        copies.append(("eval(repr)", eval(repr(ast), ns), False))
    except Exception as e:
        out.append(("repr-eval:" + type(e).__name__, f"eval(repr(ast)) raised {type(e).__name__}: {e}"))
    for proto in range(2, pickle.HIGHEST_PROTOCOL + 1):
        try:
            copies.append((f"pickle-{proto}", pickle.loads(pickle.dumps(ast, protocol=proto)), True))
        except Exception as e:
            out.append(("pickle:" + type(e).__name__, f"pickle protocol {proto} raised {type(e).__name__}: {e}"))
    try:
        copies.append(("deepcopy", copy.deepcopy(ast), True))
    except Exception as e:
        out.append(("deepcopy:" + type(e).__name__, f"copy.deepcopy raised {type(e).__name__}: {e}"))
    for how, c, with_coords in copies:
        kind = how.split("-")[0]
        if structural(c, c_ast, with_coords) != (s0 if with_coords else s0n):
            out.append((kind + ":differs", f"{how} does not rebuild an identical tree"))
            continue
        if ids(c, c_ast, set()) & orig_ids:
            out.append((kind + ":shares-nodes", f"the tree rebuilt by {how} shares node objects with the original"))
        if g0 is not None:
            try:
                g = NG.CGenerator().visit(c)
            except Exception as e:
                out.append((kind + ":generate", f"generating from the tree rebuilt by {how} raised {type(e).__name__}"))
                continue
            if g != g0:
                out.append((kind + ":text-differs", f"the tree rebuilt by {how} generates different C text"))
    if g0 is not None:
        try:
            if NG.CGenerator().visit(ast) != g0:
                out.append(("original:text-changes", "generating from the original a second time gives different text (the tree was modified)"))
        except Exception:
            pass
        if structural(ast, c_ast, True) != s0:
            out.append(("original:modified", "the original tree was modified by generating / copying"))
    return out


def contexts(tier):
    q = tier == "quick"
    lits = [v for t, v in toklex.LITERALS]
    out = [(Ctx("literals", c02.PRE + ["int", "x", "="], [";"], domain=lits + ["+", ","]), 2 if q else 3)]
    for c, n in c02.contexts(tier)[:8] + c03.contexts(tier) + c05.contexts(tier):
        if isinstance(c, PatCtx):
            if "+pragma" in c.name and not c.name.split("@")[0].endswith(("0", "8")):
                continue
            out.append((PatCtx("sh:" + c.name, c.prefix, " ".join(c.pattern), c.suffix, c.classes), 0))
        else:
            out.append((Ctx("sh:" + c.name, c.prefix, c.suffix, domain=c.domain), max(1, n - 2) if q else n - 1))
    return out


def main():
    report = checklib.Report(PID, level="other")
    findings = checklib.Findings(PID)
    report.assumptions += [
        "weak claim: the solver enumerates AST shapes (accepted path classes of the real parser); repr/eval, pickle and deepcopy run concretely on one witness per shape",
        "string contents are those of the alphabet's literals (quotes, backslashes, non-ASCII included), not all strings",
    ]
    P = symparser.load()
    nval = checklib.validate_parser_translation(P)
    report.notes.append(f"translator validation: {nval} repository test inputs")
    alpha = toklex.full_alphabet()
    seen = set()

    def path_fn(Lex, tpl):
        eng = E.cur()
        impl = D.run_parser(P, Lex, tpl)
        if impl[0] != "ast":
            return {"cls": "rejected"}
        m = eng.model()
        toks = tpl.witness(m)
        text = toklex.render(toks)
        if text in seen:
            return {"cls": "shape-seen"}
        seen.add(text)
        probs = survive(text)
        rec = {"cls": "shape", "witness": {"shape": True}}
        if probs is None:
            rec["cls"] = "witness-not-parsed-by-real-lexer"
        elif probs:
            rec["viol"] = [{"sig": "survive:" + s, "what": w, "text": text, "toks": toks} for s, w in probs]
            rec["cls"] = "shape-FAILS"
        else:
            rec["count"] = {"shapes_ok": 1}
            if len(seen) % 300 == 1:
                rec["sample"] = text.strip()
        return rec

    ctxs = contexts(checklib.tier())
    bounds = {c.name: n for c, n in ctxs}
    report.bounds["contexts"] = {c.name: (n if not isinstance(c, PatCtx) else "pattern") for c, n in ctxs if "+pragma" not in c.name}
    cands = tokharness.run_contexts(report, alpha, [c for c, _ in ctxs], lambda c: bounds[c.name], path_fn, parallel_from=4, job_kw={"max_viol": 40})
    pr = [r for r in report.runs if "+pragma" in r["name"]]
    report.runs = [r for r in report.runs if "+pragma" not in r["name"]]
    report.extra["shapes_ok"] = sum(r.get("extra", {}).get("shapes_ok", 0) for r in report.runs + pr)
    report.functions |= {"pycparser/c_ast.py:Node.__repr__/_repr, __slots__ of every class", "pycparser/c_parser.py:Coord"}
    rp = checklib.Replayer()
    CODE = '''
import copy, pickle, io
from pycparser.c_parser import CParser
from pycparser.c_generator import CGenerator
from pycparser import c_ast
text = {text!r}
def st(n, coords=True):
    if n is None: return None
    if isinstance(n, list): return [st(x, coords) for x in n]
    if not isinstance(n, c_ast.Node): return n
    return [type(n).__name__] + [(s, st(getattr(n, s), coords)) for s in n.__slots__ if s not in ("coord", "__weakref__")] + ([str(n.coord)] if coords else [])
def ids(n, acc):
    if isinstance(n, list):
        for x in n: ids(x, acc)
    elif isinstance(n, c_ast.Node):
        acc.add(id(n))
        for s in n.__slots__:
            if s not in ("coord", "__weakref__"): ids(getattr(n, s), acc)
    return acc
ast = CParser().parse(text, "f.c")
bad = []
try: g0 = CGenerator().visit(ast)
except Exception: g0 = None
s0, s0n, i0 = st(ast), st(ast, False), ids(ast, set())
ns = {{k: v for k, v in vars(c_ast).items() if isinstance(v, type)}}
cands = []
try: cands.append(("repr", eval(repr(ast), ns), False))
except Exception as e: bad.append(["repr", type(e).__name__])
for p in range(2, pickle.HIGHEST_PROTOCOL + 1):
    try: cands.append(("pickle%d" % p, pickle.loads(pickle.dumps(ast, protocol=p)), True))
    except Exception as e: bad.append(["pickle", type(e).__name__])
try: cands.append(("deepcopy", copy.deepcopy(ast), True))
except Exception as e: bad.append(["deepcopy", type(e).__name__])
for how, c, wc in cands:
    if st(c, wc) != (s0 if wc else s0n): bad.append([how, "differs"])
    elif ids(c, set()) & i0: bad.append([how, "shares nodes"])
    elif g0 is not None and CGenerator().visit(c) != g0: bad.append([how, "generates different text"])
if g0 is not None and (CGenerator().visit(ast) != g0 or st(ast) != s0): bad.append(["original", "modified"])
RESULT = {{"bad": bad}}
'''
    try:
        for sig, vs in sorted(cands.items()):
            vs.sort(key=lambda v: (len(v["toks"]), v["text"]))
            good = None
            for v in vs[:3]:
                report.replayed += 1
                r = rp.ask(op="exec", code=CODE.format(text=v["text"]))
                v["replay_outcome"] = r
                if isinstance(r, dict) and r.get("bad"):
                    good = v
                    break
            if good is None:
                report.unreproduced.append({"sig": sig, "text": vs[0]["text"], "what": vs[0]["what"], "outcome": str(vs[0].get("replay_outcome"))[:200]})
                continue
            what = f"[{sig}] {good['what']} -- source {good['text']!r}: {good['replay_outcome']['bad'][:3]}"
            kf = findings.match(sig, good["text"])
            if kf:
                report.known_hits[kf.get("id", sig)] = kf["what"]
                continue
            report.violations.append({"sig": sig, "what": what, "replay": checklib.write_replay(PID, what, "import sys\n" + CODE.format(text=good["text"]) + "print(RESULT)\nsys.exit(1 if RESULT['bad'] else 0)\n")})
    finally:
        rp.close()
    return report.finish(findings, required_witnesses=["shape"])


if __name__ == "__main__":
    checklib.run_main(main)
