"""C03 - declaration ASTs encode C declarator semantics for every declared name.

Differential symbolic execution (as C02/C05): holes are spent on the declarator
(and on specifier lists, struct/enum bodies, initializers) in every declaration
context of the property; refc reads each declarator inside-out (6.7.5) into a
derivation chain with per-level qualifiers, array static/qualifier/'*'/bound,
parameter lists (recursively), K&R identifier lists, the base specifier in source
order, storage, function specifiers, alignment, bit width and initializer with
designators; interp(AST) must give the same reading for every Decl / Typedef /
Typename / FuncDef, each declarator of a multi-declarator declaration carrying the
shared specifiers, and _Atomic(T) meaning the _Atomic-qualified T.
"""
from __future__ import annotations

from symx import checklib, diffcheck
from symx.tokharness import Ctx, PatCtx

PID = "C03"

SIGMA_D = ["*", "const", "volatile", "(", ")", "[", "]", "x", "y", "T", "1", "static", ",", "int", "void", "..."]
SIGMA_SPEC = ["typedef", "extern", "static", "auto", "register", "_Thread_local", "inline", "_Noreturn", "const", "volatile", "restrict", "_Atomic",
              "void", "char", "short", "int", "long", "float", "double", "signed", "unsigned", "_Bool", "_Complex", "__int128", "T", "struct", "enum", "y"]
SIGMA_STRUCT = ["int", "x", "y", ":", "1", ";", ",", "*", "struct", "union", "{", "}", "const", "T", "[", "]"]
SIGMA_ENUM = ["x", "y", "=", "1", ",", "T"]
SIGMA_INIT = ["1", "x", "[", "]", ".", "=", ",", "{", "}", "y"]
PRE = ["typedef", "int", "T", ";"]
FN = PRE + ["void", "y", "(", "void", ")", "{"]


def rare_contexts():
    """rarely used C99/C11 forms: every combination of the listed alternatives (multi-token hole classes, DESIGN 3.1)"""
    FN = PRE + ["void", "y", "(", "void", ")", "{"]
    rare_cls = {
        "?M": ["int x ;", '_Static_assert ( 1 , "s" ) ;', "_Static_assert ( 1 ) ;", "int : 1 ;", "struct { int y ; } ;", "union { int y ; T x ; } ;",
               "_Alignas ( 1 ) char y ;", "T x : 1 , : 0 ;", "const T * x , y [ 1 ] ;", "_Atomic ( T ) x ;", "enum { x } y ;"],
        "?L": ['"s"', 'L"w"', 'u8"s"', 'u"s"', 'U"s"'],
        "?G": ["[ 1 ]", ". x", "[ 1 ] . x", ". x [ 1 ]", ""],
        "?P": ["int x", "int", "T", "T x", "int * x", "int x [ ]", "int ( * x ) ( void )", "int ( * ) ( T )", "int ( T )", "int x [ static 1 ]", "register T x", "const T"],
        "?F": ["inline", "_Noreturn", "static", "extern", "static inline", "_Thread_local static", ""],
        "?Q": ["const", "volatile", "restrict", "_Atomic", "const volatile", "static", "static const", "const static", ""],
        "?B": ["1", "*", "x", "", "1 + x"],
    }
    rare = [
        ("struct-members", PRE, "struct y { ?M ?M ?M } ;", []),
        ("string-pieces-init", PRE, "char x [ ] = ?L ?L ?L ;", []),
        ("string-pieces-expr", FN, "x = sizeof ?L ?L + y ( ?L ?L , ?L ) [ 1 ] ;", ["}"]),
        ("static-assert-message", PRE, "_Static_assert ( 1 , ?L ?L ) ; void y ( void ) { _Static_assert ( 1 , ?L ) ; }", []),
        ("designators", PRE, "struct y { int x ; } x [ 1 ] = { ?G = 1 , ?G = { 1 } , [ 1 ] ?G = 0 , } ;", []),
        ("designators-compound-literal", FN, "x = ( struct y [ 1 ] ) { ?G = 1 , ?G = { 1 } } ?G ;", ["}"]),
        ("parameters", PRE, "?F void y ( ?P , ?P , ?P ) ;", []),
        ("parameters-of-definition", PRE, "?F void y ( ?P , ?P ) { } T x ;", []),
        ("parameters-ellipsis", PRE, "void y ( ?P , ... ) ; void x ( ?P , ?P , ... ) { }", []),
        ("array-parameter-bounds", PRE, "void y ( int x , int y [ ?Q ?B ] , T ( * x ) [ ?B ] ) ;", []),
        ("kr-definitions", PRE, "int y ( x , y ) ?P ; T y ; { return x ; } int x ( ) { }", []),
    ]
    return [(PatCtx("rare:" + name, pre, pat, suf, rare_cls), 0) for name, pre, pat, suf in rare]


def contexts(tier, rare=True):
    q = tier == "quick"
    n = 5 if q else 6
    m = 4 if q else 5
    out = [
        (Ctx("file-scope:int", PRE + ["int"], [";"], domain=SIGMA_D), n),
        (Ctx("file-scope:const-T", PRE + ["const", "T"], [";"], domain=SIGMA_D), m),
        (Ctx("file-scope:struct", PRE + ["struct", "y"], [";"], domain=SIGMA_D), m),
        (Ctx("file-scope:unsigned-long", PRE + ["unsigned", "long"], [";"], domain=SIGMA_D), m),
        (Ctx("file-scope:_Atomic(int)", PRE + ["_Atomic", "(", "int", ")"], [";"], domain=SIGMA_D), m),
        (Ctx("block", FN + ["int"], [";", "}"], domain=SIGMA_D), m),
        (Ctx("block:struct", FN + ["struct", "y"], [";", "}"], domain=SIGMA_D + ["="]), m),
        (Ctx("block:enum", FN + ["enum", "y"], [";", "}"], domain=SIGMA_D + ["="]), m - 1),
        (Ctx("knr:struct", PRE + ["int", "x", "(", "T", ")", "struct", "y"], [";", "{", "}"], domain=SIGMA_D), m - 1),
        (Ctx("for-init", FN + ["for", "(", "int"], [";", ";", ")", ";", "}"], domain=SIGMA_D), m),
        (Ctx("parameter", PRE + ["void", "y", "(", "int"], [")", ";"], domain=SIGMA_D), n),
        (Ctx("parameter2", PRE + ["void", "y", "(", "T", "x", ","], [")", ";"], domain=SIGMA_D + ["char"]), m),
        (Ctx("struct-member", PRE + ["struct", "y", "{", "int"], [";", "}", ";"], domain=SIGMA_D + [":"]), m),
        (Ctx("typedef", PRE + ["typedef", "int"], [";"], domain=SIGMA_D), m),
        (Ctx("cast-type-name", PRE + ["int", "x", "=", "(", "int"], [")", "1", ";"], domain=SIGMA_D), m),
        (Ctx("sizeof-type-name", PRE + ["int", "x", "=", "sizeof", "(", "int"], [")", ";"], domain=SIGMA_D), m),
        (Ctx("alignof-type-name", PRE + ["int", "x", "=", "_Alignof", "(", "const", "T"], [")", ";"], domain=SIGMA_D), m),
        (Ctx("compound-literal-type-name", PRE + ["int", "x", "=", "(", "int"], [")", "{", "1", "}", ";"], domain=SIGMA_D), m),
        (Ctx("specifiers", PRE, ["*", "x", "[", "1", "]", ";"], domain=SIGMA_SPEC), 3 if q else 4),
        (Ctx("specifiers-2decl", PRE, ["x", ",", "*", "y", ";"], domain=SIGMA_SPEC), 3),
        (Ctx("specifiers-param", PRE + ["void", "y", "("], ["x", ")", ";"], domain=SIGMA_SPEC), 3),
        (Ctx("struct-body", PRE + ["struct", "y", "{"], ["}", ";"], domain=SIGMA_STRUCT), 5 if q else 6),
        (Ctx("enum-body", PRE + ["enum", "y", "{"], ["}", "x", ";"], domain=SIGMA_ENUM), 5 if q else 7),
        (Ctx("initializer", PRE + ["int", "x", "[", "1", "]", "=", "{"], ["}", ";"], domain=SIGMA_INIT), 5 if q else 6),
        (Ctx("function-definition", PRE + ["int"], ["{", "}"], domain=SIGMA_D), m),
        (Ctx("knr", PRE + ["int", "x", "(", "x", ",", "y", ")"], ["{", "}"], domain=["int", "x", "y", ";", ",", "*", "T", "char"]), 5 if q else 7),
        (Ctx("alignas", PRE, ["int", "x", ";"], domain=["_Alignas", "(", ")", "int", "1", "T", "static", "const", "*"]), 5 if q else 6),
    ]
    cls = {"?Q": ["const", "volatile", "restrict", "_Atomic"], "?S": ["static", "const"], "?N": ["x", "T"], "?B": ["int", "T", "char"], "?V": ["1", "int"], "?W": ["2u", "T"]}
    pats = [
        # array of pointers to functions returning pointers to arrays, qualifiers at every level
        "int * ?Q ( * ?Q ( * ?Q x [ 1 ] ) ( void ) ) [ 1 ] ;",
        "int ( * x ( int ( * ) ( ?B ) , ?B * ?Q y ) ) ( ?B [ ?S 1 ] ) ;",
        "void y ( ?B x [ ?S ?Q 1 ] , ?B ( * ) [ ?Q * ] , ?B [ * ] , ?B ( ?N ) , ... ) ;",
        "typedef ?B * ?Q ( * x ) [ 1 ] , y ( ?B ) , * * ?Q T ;",
        "struct y { ?B x : 1 , : 1 , * ?Q y [ 1 ] ; struct { ?B x ; } ; union { ?B y ; } x ; } * ?Q x , y [ 1 ] ;",
        "enum y { x , y = 1 , } ?Q * x ( void ) ;",
        "?B x = ( ?B ( * ?Q ) [ 1 ] ) 1 , y = sizeof ( ?B * ?Q ( * ) ( ?B ) ) ;",
        "_Atomic ( ?B * ) ?Q x , * ?Q y [ 1 ] ;",
        "_Atomic ?B * _Atomic x ; _Atomic ( _Atomic ( ?B ) * ) y ;",
        "static inline ?Q ?B x ( register ?B x , ?B y ) { }",
        "_Noreturn extern ?B x ( void ) , * ?Q y ;",
        "_Thread_local static ?B x = { [ 1 ] . y = { 1 , . x [ 1 ] = 1 } , 1 } ;",
        "_Alignas ( ?V ) _Alignas ( ?W ) ?B x [ 1 ] , * y ;",
        "_Alignas ( ?V ) static _Alignas ( ?W ) ?B _Alignas ( 0x1F ) x ;",
        "struct y { _Alignas ( ?V ) ?B _Alignas ( ?W ) x ; } ;",
        "void y ( void ) { _Alignas ( ?V ) _Alignas ( ?W ) ?B x ; for ( _Alignas ( ?W ) _Alignas ( ?V ) ?B y ; ; ) ; }",
    ]
    for i, p in enumerate(pats):
        out.append((PatCtx(f"pattern{i}:{p}", PRE, p, [], cls), 0))
    return out + (rare_contexts() if rare else [])


def main():
    report = checklib.Report(PID)
    findings = checklib.Findings(PID)
    report.assumptions += [
        "tokens injected through CParser(lexer=...); T is a typedef name through a fixed 'typedef int T ;' prefix",
        "refc: ISO 9899:1999 A.2.2 with the inside-out declarator rule of 6.7.5, constraint 6.7.2p2 (legal type-specifier sets), 6.7.1p2, 6.7p2; qualifier lists of one level are compared as multisets",
        "declarations refc rejects (implicit int, empty struct/initializer, GNU extensions) carry no claim",
    ]
    alpha, cands = diffcheck.run(PID, contexts(checklib.tier()), ("tree",), report, findings, parallel_from=4)
    diffcheck.settle(PID, alpha, cands, report, findings, ("tree", "interp"))
    return report.finish(findings, required_witnesses=["accept/accept", "accept/reject", "reject/skipped"])


if __name__ == "__main__":
    checklib.run_main(main)
