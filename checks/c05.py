"""C05 - statement ASTs mirror C's statement nesting and source order.

Differential symbolic execution (as C02) on function bodies:
 (a) free holes:  void y(void) { <n holes> }  over the statement alphabet (every
     statement keyword, labels, braces, pragma tokens, _Static_assert, a declaration
     keyword) and over a reduced alphabet with more holes;
 (b) generated templates: statement skeletons (dangling else chains, do/for/switch
     nests, label runs, switch bodies with leading statements / nested cases) whose
     structure-deciding keywords are holes, each additionally with a #pragma line or a
     _Pragma operator inserted at EVERY token boundary (boundaries inside expressions
     are rejected by both parsers and cost one path).
On every path both accept, interp(FuncDef.body) must equal refc's tree after the
property's own description of switch grouping (statements under the nearest
preceding label, consecutive labels siblings) and pragma placement.
"""
from __future__ import annotations

from symx import checklib, diffcheck
from symx.tokharness import Ctx, PatCtx

PID = "C05"

KW = ["if", "else", "while", "do", "for", "switch", "case", "default", "goto", "break", "continue", "return"]
SIGMA_S = KW + ["x", "T", "1", ";", ":", "{", "}", "(", ")", "=", ",", "int", "PPPRAGMA:pragma", "PPPRAGMASTR:pack(1)", "_Pragma", '"s"', "_Static_assert", "typedef"]
SIGMA_SR = ["if", "else", "while", "do", "switch", "case", "default", "break", "x", "1", ";", ":", "{", "}", "(", ")"]
FN = ["typedef", "int", "T", ";", "void", "y", "(", "void", ")", "{"]

CLASSES = {"?K": ["if", "while", "switch"], "?J": ["break", "continue", "return"], "?E": ["x", "1"], "?L": ["case", "default", "x"]}
SKELETONS = [
    "?K ( x ) ?K ( x ) ?J ; else ?J ;",
    "if ( x ) ?K ( x ) if ( x ) ; else ; else ;",
    "if ( x ) if ( x ) if ( x ) ; else ; x ;",
    "do ?K ( x ) ?J ; while ( x ) ;",
    "do do ; while ( x ) ; while ( x ) ;",
    "for ( int x = 1 , * y = x ; x ; x ) ?K ( x ) ;",
    "for ( x = 1 , y = 1 ; ; ) ?J ;",
    "for ( ; ; ) for ( int x ; ; x ) ;",
    "switch ( x ) { case 1 : case 1 : default : ?J ; x ; case 1 : { } y : ; }",
    "switch ( x ) { int x ; x ; case 1 : x ; if ( x ) { case 1 : ; } default : ; ; }",
    "switch ( x ) { case 1 : y : case 1 : ; x ; default : case 1 : ; }",
    "switch ( x ) ?K ( x ) { case 1 : ; }",
    "switch ( x ) case 1 : case 1 : ;",
    "switch ( x ) { }",
    "y : x : case 1 : ; goto x ; return x ; return ;",
    "{ int x ; { x ; int y ; } _Static_assert ( 1 , \"s\" ) ; typedef int y ; y x ; }",
    "while ( x ) switch ( x ) { default : if ( x ) case 1 : ; else ; }",
    "if ( x ) { } else if ( x ) { ; } else { x ; }",
    "while ( x ) y : ?K ( x ) ; x ;",
]
PRAGMAS = [["PPPRAGMA:pragma", "PPPRAGMASTR:pack(1)"], ["PPPRAGMA:pragma"], ["_Pragma", "(", '"s"', ")"]]


def contexts(tier):
    q = tier == "quick"
    out = [
        (Ctx("body", FN, ["}"], domain=SIGMA_S), 4 if q else 5),
        (Ctx("body-reduced", FN, ["}"], domain=SIGMA_SR), 6 if q else 7),
        (Ctx("switch-body", FN + ["switch", "(", "x", ")", "{"], ["}", "}"], domain=["case", "default", "1", ":", ";", "x", "{", "}", "break", "if", "(", ")"]), 5 if q else 7),
    ]
    for si, sk in enumerate(SKELETONS):
        out.append((PatCtx(f"skeleton{si}:{sk}", FN, sk, ["}"], CLASSES), 0))
        words = sk.split()
        forms = PRAGMAS if not q else PRAGMAS[::2]
        for pos in range(len(words) + 1):
            for fi, pr in enumerate(forms):
                pat = " ".join(words[:pos] + pr + words[pos:])
                out.append((PatCtx(f"skeleton{si}+pragma{fi}@{pos}", FN, pat, ["}"], CLASSES), 0))
    return out


def main():
    report = checklib.Report(PID)
    findings = checklib.Findings(PID)
    report.assumptions += [
        "tokens injected through CParser(lexer=...); a #pragma line is the token pair PPPRAGMA [PPPRAGMASTR], _Pragma(\"s\") four tokens",
        "refc: ISO 9899:1999 A.2.3 statements + the property's description of switch grouping and pragma placement; interp reads a pragma-prefixed substatement as the block holding the pragmas and the statement (the AST does not distinguish it from a written block)",
        "a static assertion inside a block is StaticAssert + EmptyStatement in the AST (pinned by the repository's tests) and is read as one static assertion",
        "labels without a following statement (C23) and GNU extensions are rejected by refc: no claim",
    ]
    ctxs = contexts(checklib.tier())

    def hook(rec, impl, ref, tpl):
        """violations on programs in which pragmas stand between two case/default labels get their own signature (known finding)"""
        if not rec.get("viol"):
            return
        for v in rec["viol"]:
            kinds = [t for t, _ in v["toks"] if t != "EPS"]
            # pragmas between 'switch ( ... )' and its body
            for i, k in enumerate(kinds):
                if k == "SWITCH" and i + 1 < len(kinds) and kinds[i + 1] == "LPAREN" and v["sig"].startswith("tree:"):
                    depth, j = 0, i + 1
                    while j < len(kinds):
                        depth += kinds[j] == "LPAREN"
                        depth -= kinds[j] == "RPAREN"
                        j += 1
                        if depth == 0:
                            break
                    if j < len(kinds) and kinds[j] in ("PPPRAGMA", "_PRAGMA"):
                        v["sig"] = "tree:pragma-between-switch-and-body"
                        break
            if not v["sig"].startswith("tree:") or v["sig"] == "tree:pragma-between-switch-and-body":
                continue
            for i, k in enumerate(kinds):
                if k == "COLON" and i + 1 < len(kinds) and kinds[i + 1] in ("PPPRAGMA", "_PRAGMA"):
                    j = i + 1
                    while j < len(kinds) and kinds[j] in ("PPPRAGMA", "PPPRAGMASTR", "_PRAGMA", "LPAREN", "STRING_LITERAL", "RPAREN"):
                        j += 1
                    if j < len(kinds) and kinds[j] in ("CASE", "DEFAULT") and v["sig"].startswith("tree:"):
                        v["sig"] = "tree:pragma-between-case-labels"
                        break

    alpha, cands = diffcheck.run(PID, ctxs, ("tree",), report, findings, extra_path_hook=hook, parallel_from=4)
    # evidence would be huge with one entry per generated template: summarise them
    pat_runs = [r for r in report.runs if "+pragma" in r["name"]]
    report.runs = [r for r in report.runs if "+pragma" not in r["name"]]
    report.extra["pragma_insertion_templates"] = {
        "templates": len(pat_runs),
        "paths": sum(r["paths"] for r in pat_runs),
        "accepted_by_both": sum(r["classes"].get("accept/accept", 0) for r in pat_runs),
        "all_exhaustive": all(r["exhaustive"] for r in pat_runs),
    }
    report.bounds["contexts"] = {k: v for k, v in report.bounds["contexts"].items() if "+pragma" not in k}
    report.bounds["pragma_insertion"] = "each skeleton with '#pragma pack(1)' / '#pragma' / _Pragma(\"s\") inserted at every token position"
    diffcheck.settle(PID, alpha, cands, report, findings, ("tree", "interp"))
    return report.finish(findings, required_witnesses=["accept/accept", "accept/reject", "reject/skipped"])


if __name__ == "__main__":
    checklib.run_main(main)
