"""Shared machinery for the per-property checks: replay against the untouched
package, known findings, evidence files, exit codes, translator validation."""
from __future__ import annotations

import ast as pyast
import glob
import hashlib
import json
import os
import re
import subprocess
import sys
import time

from . import engine as E
from . import loader

VERIF = os.path.dirname(os.path.dirname(os.path.abspath(__file__)))
REPO = loader.REPO
VENV_PY = os.environ.get("VERIF_REPO_PYTHON", "/venv/bin/python")
EVIDENCE_DIR = os.environ.get("VERIF_EVIDENCE_DIR") or os.path.join(VERIF, "evidence")
REPLAY_DIR = os.environ.get("VERIF_REPLAY_DIR") or os.path.join(VERIF, "replays")
FINDINGS_FILE = os.path.join(VERIF, "known_findings.json")


def tier():
    t = os.environ.get("VERIF_TIER", "quick")
    return t if t in ("quick", "thorough") else "quick"


def seed():
    try:
        return int(os.environ.get("VERIF_SEED", "0"))
    except ValueError:
        return 0


# --------------------------------------------------------------------------- replay
class Replayer:
    """persistent /venv/bin/python process running symx/replay_server.py on the
    untouched package"""

    def __init__(self):
        self.p = None
        self.count = 0

    def _start(self):
        env = dict(os.environ)
        env["VERIF_REPO"] = REPO
        env.pop("PYTHONPATH", None)
        self.p = subprocess.Popen(
            [VENV_PY, os.path.join(VERIF, "symx", "replay_server.py")],
            stdin=subprocess.PIPE,
            stdout=subprocess.PIPE,
            text=True,
            env=env,
            cwd="/",
        )

    def ask(self, **req):
        if self.p is None or self.p.poll() is not None:
            self._start()
        self.count += 1
        self.p.stdin.write(json.dumps(req) + "\n")
        self.p.stdin.flush()
        line = self.p.stdout.readline()
        if not line:
            self.p = None
            return {"outcome": "server-died"}
        return json.loads(line)

    def close(self):
        if self.p is not None and self.p.poll() is None:
            try:
                self.p.stdin.write('{"op":"quit"}\n')
                self.p.stdin.flush()
                self.p.wait(timeout=5)
            except Exception:
                self.p.kill()
        self.p = None


REPLAY_TEMPLATE = '''#!/usr/bin/env python
# interpreter: {py}
"""Stand-alone replay of a counterexample for property {pid}.
Run with:  {py} {path}      (or: python3 /verif/tools/replay.py {path})
Exit status 1 = the violation reproduces on the package under {repo}; 0 = it does not.
{what}
"""
import sys, json
sys.path.insert(0, {repo!r})
{body}
'''


def write_replay(pid, what, body, interpreter=None):
    os.makedirs(REPLAY_DIR, exist_ok=True)
    digest = hashlib.sha1((what + body).encode()).hexdigest()[:12]
    path = os.path.join(REPLAY_DIR, f"{pid}-{digest}.py")
    what = what.replace('"' * 3, "'" * 3)
    with open(path, "w") as f:
        f.write(REPLAY_TEMPLATE.format(pid=pid, py=interpreter or VENV_PY, path=path, repo=REPO, what=what, body=body))
    return path


# --------------------------------------------------------------------------- findings
class Findings:
    def __init__(self, pid):
        self.pid = pid
        self.known = []
        self.fixed = []
        if os.path.exists(FINDINGS_FILE):
            data = json.load(open(FINDINGS_FILE))
            self.known = [f for f in data.get("findings", []) if f["property"] == pid]
            self.fixed = [f for f in data.get("fixed", []) if f["property"] == pid]

    def match(self, sig, witness=None):
        """a listed finding matches by exact signature, or by signature prefix plus token spellings that
        must occur (in this order) in the witness input - specific enough that a different defect is still reported"""
        for f in self.known:
            if f.get("signature") == sig:
                return f
            pre = f.get("signature_prefix")
            if pre and sig.startswith(pre):
                need = f.get("witness_has", [])
                if witness is None:
                    continue
                words = witness.split()
                i = 0
                for w in words:
                    if i < len(need) and w == need[i]:
                        i += 1
                if i == len(need):
                    return f
        return None


# --------------------------------------------------------------------------- report
class Report:
    """collects what a check run covered and how it ended"""

    def __init__(self, pid, level="model_checking"):
        self.pid = pid
        self.level = level
        self.t0 = time.time()
        self.states = 0
        self.transitions = 0
        self.replayed = 0
        self.samples = []
        self.runs = []
        self.assumptions = []
        self.functions = set()
        self.violations = []  # confirmed, unlisted: dict(sig, what, replay)
        self.known_hits = {}
        self.unreproduced = []
        self.inconclusive = 0
        self.exhaustive = True
        self.queries = E.Stats()
        self.tsolver = 0.0
        self.bounds = {}
        self.witnesses = {}
        self.notes = []
        self.harness_errors = []
        self.extra = {}

    def add_run(self, name, res: E.Result, describe=None):
        self.states += res.paths
        self.transitions += res.stats.get("decisions", 0)
        self.tsolver += res.tsolver
        for k, v in res.stats.items():
            if k.startswith("q_") or k in ("cache_hits", "obligations", "obligations_discharged", "unknown_branches"):
                self.queries.inc(k, v)
        if not res.exhaustive:
            self.exhaustive = False
        self.inconclusive += res.stats.get("q_unknown", 0)
        entry = {
            "name": name,
            "paths": res.paths,
            "decisions": res.stats.get("decisions", 0),
            "classes": dict(res.classes),
            "exhaustive": res.exhaustive,
            "frontier": res.frontier,
            "wall_s": round(res.wall, 2),
        }
        if describe:
            entry["template"] = describe
        if res.extra:
            entry["extra"] = {k: v for k, v in res.extra.items()}
        self.runs.append(entry)
        for s in res.samples:
            if len(self.samples) < 12:
                self.samples.append(s)
        for k, w in res.witnesses.items():
            self.witnesses.setdefault(k, w)

    def finish(self, findings: Findings, required_witnesses=()):
        """write evidence, print result lines, return exit code"""
        code = 0
        for k in required_witnesses:
            if k not in self.witnesses:
                self.harness_errors.append(f"reachability witness '{k}' not found: harness may be vacuous")
        for sig, info in self.known_hits.items():
            print(f"KNOWN-FINDING: property={self.pid} {info}")
        for v in self.violations:
            print(f"VIOLATION property={self.pid} replay={v['replay']}")
            print(f"  {v['what']}")
            code = 1
        if self.unreproduced and os.environ.get("VERIF_VERBOSE"):
            for u in self.unreproduced:
                print("UNREPRODUCED:", json.dumps(u, default=str)[:1500], file=sys.stderr)
        if self.unreproduced:
            self.harness_errors.append(
                f"{len(self.unreproduced)} counterexample(s) did not reproduce on the untouched package: "
                + "; ".join(str(u)[:200] for u in self.unreproduced[:3])
            )
        if self.harness_errors and code == 0:
            code = E.EXIT_HARNESS_ERROR
        for h in self.harness_errors:
            print(f"HARNESS-ERROR property={self.pid}: {h}", file=sys.stderr)
        ev = {
            "property_id": self.pid,
            "tier": tier(),
            "seed": seed(),
            "level": self.level,
            "coverage": {
                "states": max(self.states, 0),
                "transitions": max(self.transitions, 0),
                "traces_validated_against_impl": self.replayed,
                "samples": self.samples or ["<none>"],
                "exhaustive": bool(self.exhaustive),
                "explanation": "states = feasible paths of the symbolic execution of the real code (each a class of inputs); "
                "transitions = solver-confirmed decisions; traces_validated = solver witnesses replayed on the untouched package",
                "runs": self.runs,
                "bounds": self.bounds,
                "functions_encoded": sorted(self.functions),
                "solver": {
                    "engine": "z3 " + __import__("z3").get_version_string(),
                    "queries": dict(self.queries),
                    "solver_time_s": round(self.tsolver, 2),
                    "inconclusive": self.inconclusive,
                },
                "reachability_witnesses": self.witnesses,
                "known_findings_hit": sorted(self.known_hits),
                "unreproduced_counterexamples": len(self.unreproduced),
                "notes": self.notes,
                **self.extra,
            },
            "assumptions": self.assumptions,
            "wall_s": round(time.time() - self.t0, 2),
            "violations": len(self.violations),
        }
        os.makedirs(EVIDENCE_DIR, exist_ok=True)
        with open(os.path.join(EVIDENCE_DIR, f"{self.pid}.json"), "w") as f:
            json.dump(ev, f, indent=1, default=str)
        status = "ok" if code == 0 else ("VIOLATION" if code == 1 else "harness-error")
        print(
            f"{self.pid} [{tier()}] {status}: {self.states} paths, {self.transitions} decisions, "
            f"{self.replayed} replays, exhaustive={self.exhaustive}, {ev['wall_s']}s"
        )
        return code


# --------------------------------------------------------------------------- census
class Census:
    """which functions of the repository's modules were entered (sampled paths)"""

    def __init__(self):
        self.seen = set()
        self.prefix = os.path.abspath(REPO) + os.sep

    def _prof(self, frame, event, arg):
        if event == "call":
            co = frame.f_code
            fn = co.co_filename
            if fn.startswith(self.prefix):
                self.seen.add(f"{fn[len(self.prefix):]}:{co.co_qualname if hasattr(co, 'co_qualname') else co.co_name}")

    def __enter__(self):
        sys.setprofile(self._prof)
        return self

    def __exit__(self, *a):
        sys.setprofile(None)


# --------------------------------------------------------------------------- translator validation
def repo_test_snippets(max_len=4000):
    """string constants of the repository's own tests that look like C input"""
    out = []
    seen = set()
    for f in sorted(glob.glob(os.path.join(REPO, "tests", "test_c_*.py"))):
        try:
            tree = pyast.parse(open(f, encoding="utf-8").read())
        except SyntaxError:
            continue
        for node in pyast.walk(tree):
            if isinstance(node, pyast.Constant) and isinstance(node.value, str):
                s = node.value
                if 1 <= len(s) <= max_len and s not in seen and not s.startswith("test_"):
                    seen.add(s)
                    out.append(s)
    for f in sorted(glob.glob(os.path.join(REPO, "tests", "c_files", "*.c")) + glob.glob(os.path.join(REPO, "examples", "c_files", "*.c"))):
        try:
            s = open(f, encoding="utf-8", errors="replace").read()
        except OSError:
            continue
        if s not in seen:
            seen.add(s)
            out.append(s)
    return out


def outcome_of_parse(parser_mod, text, **kw):
    import io

    try:
        ast = parser_mod.CParser(**kw).parse(text, "t.c")
    except RecursionError:
        return ("RecursionError",)
    except Exception as e:
        return ("exc", type(e).__name__, str(e))
    buf = io.StringIO()
    ast.show(buf=buf, attrnames=True, nodenames=True, showcoord=True)
    return ("ast", buf.getvalue())


def validate_parser_translation(sym_mod):
    """rewritten parser vs untouched parser on the repository's test inputs"""
    native = loader.native("c_parser")
    n = 0
    for s in repo_test_snippets():
        a = outcome_of_parse(native, s)
        b = outcome_of_parse(sym_mod, s)
        n += 1
        if a != b:
            raise E.HarnessError(f"translator validation failed on {s[:80]!r}: native={str(a)[:200]} rewritten={str(b)[:200]}")
    return n


# --------------------------------------------------------------------------- misc
def fill_placeholders(s, toks):
    """replace \\x01V<i>\\x02 / \\x01T<i>\\x02 placeholders by witness spellings / types"""

    def rep(m):
        kind, i = m.group(1), m.group(2)
        if kind == "V":
            return toks[int(i)][1]
        if kind == "T":
            return toks[int(i)][0]
        return m.group(0)

    return re.sub("\x01([VT])(\\d+)\x02", rep, s)


def run_main(fn):
    os.environ.setdefault("PYTHONHASHSEED", "0")
    try:
        code = fn()
    except E.HarnessError as e:
        print(f"HARNESS-ERROR: {e}", file=sys.stderr)
        code = E.EXIT_HARNESS_ERROR
    sys.exit(code)
