"""interp - the reading of a pycparser AST as a neutral tree, one short clause per
node class, following the semantics documented in _c_ast.cfg / README:

  a PtrDecl -> ArrayDecl -> TypeDecl chain *is* "pointer to array of";
  Typename is an unnamed entity; ExprList directly inside ExprList means "was
  parenthesised"; Case.stmts are the statements up to the next label; a Compound
  directly under if/while/for/do/switch/label whose first items are Pragmas is the
  pragma-wrapping (indistinguishable from a written block, and read as one);
  '[*]' is ID('*'); K&R identifier lists are ParamLists of IDs; designators
  are bare IDs/constant expressions; _Atomic(T) is T with the _Atomic qualifier.

Neutral tree (also produced by refc):
  expressions  ("id",n) ("const",ctype,spelling) ("str",spelling) ("unary",op,e) ("postfix",op,e)
               ("sizeof-expr",e) ("sizeof-type",T) ("alignof-type",T) ("binop",op,l,r) ("assign",op,l,r)
               ("cond",c,t,f) ("comma",[e..]) ("call",f,[args]) ("index",a,i) ("member",op,e,name)
               ("cast",T,e) ("complit",T,init) ("initlist",[items]) ("desig",[d..],init)
  types        ("ptr",quals,T) ("array",dim,dimquals,T) ("func",params,T) ("base",quals,spec)
               spec: ("names",[..]) ("struct"|"union",tag,members|None) ("enum",tag,enumerators|None)
               params: None | ("idlist",[names]) | ("params",[entity|("ellipsis",)])
  entities     ("decl",name,T,storage,funcspec,align,init,bitsize) ("typedef",name,T,storage) ("typename",T)
               ("funcdef",entity,[knr entities],body)
  statements   ("compound",[items]) ("expr",e) ("empty",) ("if",c,t,e) ("while",c,s) ("dowhile",s,c)
               ("for",init,c,n,s) ("switch",c,s) ("case",e,[s..]) ("default",[s..]) ("label",n,s) ("goto",n)
               ("break",) ("continue",) ("return",e) ("pragma",text) ("static_assert",c,msg)
"""
from __future__ import annotations

from .proxies import SymStr


class InterpError(Exception):
    """the AST is not a tree the documentation describes (e.g. Decl.name differs from the declarator's name)"""


EXPR_CLASSES = {"ID", "Constant", "UnaryOp", "BinaryOp", "Assignment", "TernaryOp", "ExprList", "FuncCall", "ArrayRef", "StructRef", "Cast", "CompoundLiteral", "InitList", "NamedInitializer"}


def cname(n):
    return type(n).__name__


def expr(n):
    if n is None:
        return None
    c = cname(n)
    if c == "ID":
        return ("id", n.name)
    if c == "Constant":
        if n.type == "string":
            return ("str", n.value)
        return ("const", n.type, n.value)
    if c == "UnaryOp":
        op = n.op
        if op == "sizeof":
            return ("sizeof-type", entity(n.expr)) if cname(n.expr) == "Typename" else ("sizeof-expr", expr(n.expr))
        if op == "_Alignof":
            return ("alignof-type", entity(n.expr))
        if op == "p++":
            return ("postfix", "++", expr(n.expr))
        if op == "p--":
            return ("postfix", "--", expr(n.expr))
        return ("unary", op, expr(n.expr))
    if c == "BinaryOp":
        return ("binop", n.op, expr(n.left), expr(n.right))
    if c == "Assignment":
        return ("assign", n.op, expr(n.lvalue), expr(n.rvalue))
    if c == "TernaryOp":
        return ("cond", expr(n.cond), expr(n.iftrue), expr(n.iffalse))
    if c == "ExprList":
        return ("comma", [expr(e) for e in n.exprs])
    if c == "FuncCall":
        args = [] if n.args is None else [expr(a) for a in n.args.exprs]
        return ("call", expr(n.name), args)
    if c == "ArrayRef":
        return ("index", expr(n.name), expr(n.subscript))
    if c == "StructRef":
        if cname(n.field) != "ID":
            raise InterpError("StructRef.field is not an ID")
        return ("member", n.type, expr(n.name), n.field.name)
    if c == "Cast":
        return ("cast", entity(n.to_type), expr(n.expr))
    if c == "CompoundLiteral":
        return ("complit", entity(n.type), expr(n.init))
    if c == "InitList":
        return ("initlist", [expr(e) for e in n.exprs])
    if c == "NamedInitializer":
        return ("desig", [expr(d) for d in n.name], expr(n.expr))
    if c == "Typename":
        return entity(n)
    raise InterpError(f"{c} in expression position")


def spec(n):
    c = cname(n)
    if c == "IdentifierType":
        return ("names", list(n.names))
    if c in ("Struct", "Union"):
        members = None if n.decls is None else [member(d) for d in n.decls]
        return (c.lower(), n.name, members)
    if c == "Enum":
        enums = None
        if n.values is not None:
            enums = [("enumerator", e.name, expr(e.value)) for e in n.values.enumerators]
        return ("enum", n.name, enums)
    raise InterpError(f"{c} as a type specifier")


def member(d):
    c = cname(d)
    if c == "Pragma":
        return stmt(d)
    if c == "StaticAssert":
        return stmt(d)
    return entity(d)


def typ(n, outer_quals=None):
    """type chain -> neutral type; returns (type, declname)"""
    c = cname(n)
    if c == "PtrDecl":
        t, name = typ(n.type)
        return ("ptr", list(n.quals or []), t), name
    if c == "ArrayDecl":
        t, name = typ(n.type)
        dim = n.dim
        if dim is not None and cname(dim) == "ID" and dim.name == "*":
            d = ("vla-star",)
        else:
            d = expr(dim)
        return ("array", d, list(n.dim_quals or []), t), name
    if c == "FuncDecl":
        t, name = typ(n.type)
        return ("func", params(n.args), t), name
    if c == "TypeDecl":
        return ("base", list(n.quals or []), spec(n.type)), n.declname
    if c in ("Struct", "Union", "Enum", "IdentifierType"):
        return ("base", list(outer_quals or []), spec(n)), None
    if c == "Typename":
        # only as the operand of an un-normalised _Atomic(...) - should have been removed by the parser
        raise InterpError("Typename inside a type chain")
    raise InterpError(f"{c} inside a type chain")


def params(pl):
    if pl is None:
        return None
    items = pl.params
    if items and all(cname(p) == "ID" for p in items):
        return ("idlist", [p.name for p in items])
    out = []
    for p in items:
        if cname(p) == "EllipsisParam":
            out.append(("ellipsis",))
        else:
            out.append(entity(p))
    return ("params", out)


def align_of(lst):
    out = []
    for a in lst or []:
        if cname(a) != "Alignas":
            raise InterpError("non-Alignas in align")
        if cname(a.alignment) == "Typename":
            out.append(("alignas-type", entity(a.alignment)))
        else:
            out.append(("alignas-expr", expr(a.alignment)))
    return out


def entity(n):
    c = cname(n)
    if c == "Decl":
        t, name = typ(n.type, n.quals)
        if not _same(name, n.name):
            raise InterpError(f"Decl.name {n.name!s} differs from the declarator's name {name!s}")
        return ("decl", n.name, t, list(n.storage or []), list(n.funcspec or []), align_of(n.align), expr(n.init) if n.init is not None else None, expr(n.bitsize) if n.bitsize is not None else None)
    if c == "Typedef":
        t, name = typ(n.type, n.quals)
        if not _same(name, n.name):
            raise InterpError(f"Typedef.name {n.name!s} differs from the declarator's name {name!s}")
        return ("typedef", n.name, t, list(n.storage or []))
    if c == "Typename":
        t, name = typ(n.type, n.quals)
        return ("typename", t)
    if c == "FuncDef":
        knr = [entity(d) for d in (n.param_decls or [])]
        return ("funcdef", entity(n.decl), knr, stmt(n.body))
    raise InterpError(f"{c} as a declared entity")


def _same(a, b):
    if a is None or b is None:
        return a is None and b is None or (a in (None, "") and b in (None, ""))
    return a == b


def stmt(n):
    if n is None:
        return None
    c = cname(n)
    if c in EXPR_CLASSES:
        return ("expr", expr(n))
    if c in ("Decl", "Typedef", "FuncDef"):
        return entity(n)
    if c == "Compound":
        return ("compound", block_items(n.block_items or []))
    if c == "EmptyStatement":
        return ("empty",)
    if c == "If":
        return ("if", expr(n.cond), stmt(n.iftrue), stmt(n.iffalse))
    if c == "While":
        return ("while", expr(n.cond), stmt(n.stmt))
    if c == "DoWhile":
        return ("dowhile", stmt(n.stmt), expr(n.cond))
    if c == "For":
        if n.init is not None and cname(n.init) == "DeclList":
            init = ("decls", [entity(d) for d in n.init.decls])
        else:
            init = expr(n.init)
        return ("for", init, expr(n.cond), expr(n.next), stmt(n.stmt))
    if c == "Switch":
        return ("switch", expr(n.cond), stmt(n.stmt))
    if c == "Case":
        return ("case", expr(n.expr), [stmt(s) for s in n.stmts])
    if c == "Default":
        return ("default", [stmt(s) for s in n.stmts])
    if c == "Label":
        return ("label", n.name, stmt(n.stmt))
    if c == "Goto":
        return ("goto", n.name)
    if c == "Break":
        return ("break",)
    if c == "Continue":
        return ("continue",)
    if c == "Return":
        return ("return", expr(n.expr))
    if c == "Pragma":
        s = n.string
        if hasattr(s, "value") and cname(s) == "Constant":
            s = s.value
        return ("pragma", s)
    if c == "StaticAssert":
        return ("static_assert", expr(n.cond), expr(n.message))
    raise InterpError(f"{c} in statement position")


def block_items(items):
    """a static assertion inside a block is represented as StaticAssert followed by an
    EmptyStatement for its ';' (the repository's test_static_assert pins this shape)"""
    out = []
    prev_sa = False
    for i in items:
        c = cname(i)
        if c == "EmptyStatement" and prev_sa:
            prev_sa = False
            continue
        out.append(stmt(i))
        prev_sa = c == "StaticAssert"
    return out


def file(ast):
    if cname(ast) != "FileAST":
        raise InterpError("not a FileAST")
    return ("file", [stmt(e) for e in ast.ext])


# --------------------------------------------------------------------------- reference-side normalisation
def conc(x):
    return x.concretize() if isinstance(x, SymStr) else x


INT_KINDS = {"INT_CONST_DEC", "INT_CONST_OCT", "INT_CONST_HEX", "INT_CONST_BIN"}


def const_type(kind, spelling):
    """type 6.4.4 assigns to a constant from its kind and suffix (names as pycparser documents them)"""
    kind = conc(kind)
    if kind in INT_KINDS:
        s = conc(spelling)
        i = len(s)
        while i > 0 and s[i - 1] in "uUlL":
            i -= 1
        suf = s[i:]
        u = sum(1 for ch in suf if ch in "uU")
        l = sum(1 for ch in suf if ch in "lL")
        return "unsigned " * u + "long " * l + "int"
    if kind == "INT_CONST_CHAR":
        return "int"
    if kind in ("FLOAT_CONST", "HEX_FLOAT_CONST"):
        s = conc(spelling)
        if s[-1] in "fF" and not (kind == "HEX_FLOAT_CONST" and False):
            return "float"
        if s[-1] in "lL":
            return "long double"
        return "double"
    return "char"


PREFIX_LEN = {"STRING_LITERAL": 0}


def merge_strings(pieces):
    """adjacent string literals form one literal: spelling of the first without its closing quote,
    then the contents of the others (their prefix and opening quote removed)"""
    if len(pieces) == 1:
        return pieces[0]
    prefix = ""
    out = ""
    for p in pieces:
        s = conc(p)
        q = s.index('"')
        prefix = prefix or s[:q]  # one prefixed piece makes the whole literal prefixed (C99 6.4.5p4)
        out += s[q + 1 : -1]
    return prefix + '"' + out + '"'


def add_quals(t, quals):
    if t[0] == "base":
        return ("base", list(t[1]) + list(quals), t[2])
    if t[0] == "ptr":
        return ("ptr", list(t[1]) + list(quals), t[2])
    from .refc import RefUnsupported

    raise RefUnsupported("_Atomic( array or function type )")


def norm(t):
    """normal form of a reference tree: constants typed, strings merged, _Atomic(T) folded into T,
    qualifier lists as sorted multisets"""
    if isinstance(t, list):
        return [norm(x) for x in t]
    if not isinstance(t, tuple) or not t:
        return t
    tag = t[0]
    if tag == "const-tok":
        return ("const", const_type(t[1], t[2]), t[2])
    if tag == "str" and isinstance(t[1], list):
        return ("str", merge_strings(t[1]))
    if tag == "base":
        quals, sp = t[1], t[2]
        if sp[0] == "atomic":
            inner = norm(sp[1])  # ("typename", T)
            return norm_quals(add_quals(inner[1], list(quals) + ["_Atomic"]))
        return ("base", sort_quals(quals), norm(sp))
    if tag == "ptr":
        return ("ptr", sort_quals(t[1]), norm(t[2]))
    return tuple(norm(x) for x in t)


def norm_quals(t):
    if t[0] in ("base", "ptr"):
        return (t[0], sort_quals(t[1]), t[2])
    return t


def sort_quals(q):
    """qualifiers of one level as a sorted set: repeating a qualifier means the same as writing it once (6.7.3p4)"""
    q = list(q)
    if len(q) <= 1:
        return q
    return sorted(set(conc(x) for x in q))


def norm_ast_side(t):
    """same qualifier normal form for the implementation side"""
    if isinstance(t, list):
        return [norm_ast_side(x) for x in t]
    if not isinstance(t, tuple) or not t:
        return t
    if t[0] in ("base", "ptr"):
        return (t[0], sort_quals(t[1])) + tuple(norm_ast_side(x) for x in t[2:])
    return tuple(norm_ast_side(x) for x in t)


def tree_diff(a, b, path="tree"):
    """first difference between two neutral trees (None if equal); leaves compared symbolically"""
    if isinstance(a, (tuple, list)) or isinstance(b, (tuple, list)):
        if not isinstance(a, (tuple, list)) or not isinstance(b, (tuple, list)):
            return f"{path}: {_show(a)} vs {_show(b)}"
        if len(a) != len(b):
            return f"{path}: {_show(a)} vs {_show(b)}"
        tag = a[0] if a and isinstance(a[0], str) and not isinstance(a[0], SymStr) else None
        for i, (x, y) in enumerate(zip(a, b)):
            d = tree_diff(x, y, f"{path}/{tag or ''}[{i}]")
            if d:
                return d
        return None
    if a is None or b is None:
        return None if a is b else f"{path}: {_show(a)} vs {_show(b)}"
    if a is b:
        return None
    if isinstance(a, SymStr) and isinstance(b, SymStr) and a.key == b.key and a.kind == b.kind:
        return None
    return None if a == b else f"{path}: {_show(a)} vs {_show(b)}"


def _show(x, depth=0):
    if isinstance(x, (tuple, list)):
        if depth > 2:
            return "(...)"
        return "(" + " ".join(_show(y, depth + 1) for y in x) + ")"
    return str(x)
