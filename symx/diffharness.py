"""Differential harness: the real parser and the reference front end `refc` run on
the SAME symbolic tokens inside one path (product execution); the AST is read by
`interp` and compared with refc's neutral tree."""
from __future__ import annotations

from . import engine as E
from . import toklex, tokharness, loader
from .refc import RefParser, RefReject, RefUnsupported, ref_tokens
from . import interp

FILENAME = "f.c"


def run_reference(tpl):
    """('accept', tree, parser) | ('reject', why) | ('unsupported', why)"""
    rp = RefParser(ref_tokens(tpl))
    try:
        tree = rp.translation_unit()
        tree = interp.norm(tree)
    except RefReject as e:
        return ("reject", str(e), rp)
    except RefUnsupported as e:
        return ("unsupported", str(e), rp)
    except RecursionError:
        return ("unsupported", "recursion", rp)
    return ("accept", tree, rp)


def run_parser(P, Lex, tpl):
    parser = P.CParser(lexer=Lex)
    try:
        ast = parser.parse(tpl, FILENAME)
    except P.ParseError as e:
        return ("ParseError", str(e), parser)
    except RecursionError:
        return ("RecursionError", "", parser)
    except E.HarnessError:
        raise
    except Exception as e:
        return ("exc", type(e).__name__ + ": " + str(e)[:80], parser)
    return ("ast", ast, parser)


def differential_path(P, Lex, tpl, want=("tree", "accept")):
    """one path; returns record with cls and possibly violations of kinds
    'rejected-valid' (C01), 'tree' (C02/C03/C05), 'interp' (AST is not a documented tree)"""
    eng = E.cur()
    impl = run_parser(P, Lex, tpl)
    if impl[0] == "ast" or "accept" in want:
        ref = run_reference(tpl)
    else:
        ref = ("skipped", "", None)
    cls = f"{'accept' if impl[0] == 'ast' else 'reject'}/{ref[0]}"
    rec = {"cls": cls, "witness": {cls: True}}
    viol = []
    if impl[0] == "ast" and ref[0] == "accept":
        try:
            got = interp.norm_ast_side(interp.file(impl[1]))
            d = interp.tree_diff(got, ref[1])
        except interp.InterpError as e:
            d = None
            viol.append({"kind": "interp", "sig": "ast-shape:" + str(e).split(" ")[0], "what": f"AST is not a tree the documentation describes: {e}"})
        if d:
            where = d.split(":")[0]
            viol.append({"kind": "tree", "sig": "tree:" + _sig_of(d), "what": f"AST differs from the reference reading at {d}"})
    elif impl[0] != "ast" and ref[0] == "accept" and "accept" in want:
        if impl[0] == "ParseError":
            viol.append({"kind": "rejected-valid", "sig": None, "msg": impl[1], "what": f"valid translation unit rejected: {impl[1]}"})
    if viol:
        m = eng.model()
        if m is None:
            raise E.HarnessError("no model")
        toks = tpl.witness(m)
        for v in viol:
            v["toks"] = toks
            v["what"] = fill(v["what"], toks)
            if v["sig"] is None:
                v["sig"] = "rejected-valid:" + _err_sig(v.pop("msg"), toks, impl[2])
        rec["viol"] = [v for v in viol if v["kind"] in _kinds(want)]
        if rec["viol"]:
            rec["cls"] += "-VIOL"
        else:
            del rec["viol"]
    elif impl[0] == "ast" and ref[0] == "accept":
        m = eng.model()
        rec["sample"] = toklex.render(tpl.witness(m)).strip()
    rec["impl"] = impl[0]
    return rec, impl, ref


def _kinds(want):
    k = set()
    if "tree" in want:
        k |= {"tree", "interp"}
    if "accept" in want:
        k |= {"rejected-valid"}
    return k


def fill(s, toks):
    from .checklib import fill_placeholders

    return fill_placeholders(s, toks)


def _sig_of(d):
    """path of tags without indices: tree/file[1]/decl[6]/binop[2] -> file/decl/binop"""
    import re

    path = d.split(":")[0]
    tags = [re.sub(r"\[\d+\]", "", p) for p in path.split("/")[1:]]
    tags = [t for t in tags if t]
    return "/".join(tags[-3:])


def _err_sig(msg, toks, parser):
    """kind of message + the types of the last consumed token and of the token the parser was looking at
    when it gave up (from the parser's own token cursor)"""
    import re

    what = msg.split(": ", 1)[-1]
    what = re.sub("\x01[^\x02]*\x02", "", what).split(":")[0].strip().split(" ")
    what = " ".join(what[:2])
    try:
        idx = parser._tokens._index
    except Exception:
        idx = None
    if idx is None:
        return what
    m = re.match(r"^[^:]*:(\d+):(\d+): ", msg)
    if m:
        # concrete coordinates: column = template position + 1 (positions holding EPS, "no token", included)
        idx = sum(1 for t in toks[: int(m.group(2)) - 1] if t[0] != "EPS")
    toks = [t for t in toks if t[0] != "EPS"]  # the parser's cursor counts real tokens only
    cur = toks[idx][0] if 0 <= idx < len(toks) else "EOF"
    prev = toks[idx - 1][0] if 0 < idx <= len(toks) else "^"
    return f"{what}:{prev},{cur}"


# --------------------------------------------------------------------------- concrete replay
def concrete_reference(alpha, toks):
    """refc run concretely on a witness token list [(type, spelling)]"""
    names = []
    for t, v in toks:
        names.append(alpha.name_of(alpha.syms.index((t, v))))
    tpl = toklex.Template(alpha, names, var="r")
    return run_reference(tpl)


def replay_tree(alpha, toks):
    """parse the rendered witness with the UNTOUCHED modules (real lexer) and compare with the
    concrete reference; returns (reproduces, detail)"""
    native = loader.native("c_parser")
    text = toklex.render(toks)
    old = E.ENG
    E.ENG = None
    try:
        ref = concrete_reference(alpha, toks)
        try:
            ast = native.CParser().parse(text, FILENAME)
        except native.ParseError as e:
            return ("rejected", ref[0] == "accept", text, str(e))
        except Exception as e:
            return ("exc", False, text, repr(e))
        if ref[0] != "accept":
            return ("ref-" + ref[0], False, text, ref[1])
        try:
            got = interp.norm_ast_side(interp.file(ast))
        except interp.InterpError as e:
            return ("interp", True, text, str(e))
        d = interp.tree_diff(got, ref[1])
        return ("tree", d is not None, text, d)
    finally:
        E.ENG = old


# --------------------------------------------------------------------------- validation of refc/interp on the repository's own inputs
def validate_reference_on_repo_inputs(max_report=8):
    """Every C snippet of the repository's tests that the untouched parser accepts is tokenised by the
    real lexer (recording subclass), handed to refc as a concrete token list and compared with
    interp(AST).  Returns (n_compared, n_ref_rejects, disagreements[list of str])."""
    from .checklib import repo_test_snippets

    native = loader.native("c_parser")
    nlex = loader.native("c_lexer")
    compared = rejected = 0
    bad = []
    old = E.ENG
    E.ENG = None
    try:
        for s in repo_test_snippets():
            rec = []

            class RecLexer(nlex.CLexer):
                def token(self):
                    t = super().token()
                    if t is not None:
                        rec.append((t.type, t.value))
                    return t

            try:
                ast = native.CParser(lexer=RecLexer).parse(s, FILENAME)
            except Exception:
                continue
            syms = []
            seq = []
            for t, v in rec:
                sym = ("IDENT", v) if t in ("ID", "TYPEID") else (t, v)
                if sym not in syms:
                    syms.append(sym)
                seq.append(syms.index(sym))
            if not seq:
                continue
            alpha = toklex.Alphabet(syms)
            tpl = toklex.Template(alpha, [[j] for j in seq], var="v")
            ref = run_reference(tpl)
            if ref[0] != "accept":
                rejected += 1
                continue
            compared += 1
            try:
                got = interp.norm_ast_side(interp.file(ast))
                d = interp.tree_diff(got, ref[1])
            except interp.InterpError as e:
                d = f"InterpError: {e}"
            if d and len(bad) < max_report:
                bad.append(f"{s[:70]!r}: {d}")
    finally:
        E.ENG = old
    return compared, rejected, bad
