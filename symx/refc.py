"""refc - a by-the-book C99 front end (ISO 9899:1999 Annex A.2, plus the C11
items pycparser documents: _Atomic, _Alignas/_Alignof, _Static_assert,
_Noreturn, _Thread_local, anonymous struct/union members, and the pragma
tokens pycparser passes through) over the token alphabet of symx-tok.

One method per nonterminal in the *layered* form of the standard.  It keeps its
own scope table implementing 6.2.1 (an ordinary identifier's scope starts right
after its declarator, an enumerator's after the enumerator; parameters of a
function definition live in the body block; a for statement with a declaration
is its own block; tags, members and labels have their own name spaces;
prototype parameters have prototype scope) and applies the syntactic
constraints a conforming compiler must diagnose (6.7.2p2 type-specifier sets,
6.7.1p2 one storage class, 6.7p2 a declaration declares something), so it never
calls something valid that -pedantic-errors rejects for syntactic reasons.

It runs inside the symbolic engine on the same token variables as the real
parser (every token test is a decision on k_i) and produces a *neutral tree*
(plain tuples/lists, leaves = token spellings) described in interp.py.

RefReject      - the token sequence is not a valid translation unit (no claim)
RefUnsupported - valid or not, the construct is outside what refc models (no claim)
"""
from __future__ import annotations

from .proxies import SymStr
from . import engine as E


class RefReject(Exception):
    pass


class RefUnsupported(Exception):
    pass


class RTok:
    __slots__ = ("kind", "val", "i")

    def __init__(self, kind, val, i):
        self.kind = kind
        self.val = val
        self.i = i


def ref_tokens(tpl):
    """fresh token proxies over the template's variables; identifiers keep kind 'IDENT'"""
    out = []
    a = tpl.alpha
    for i in range(tpl.n):
        dom = tpl.doms[i]
        if a.eps in dom:
            # "no token here" (padding of a multi-token hole class)
            if len(dom) == 1 or E.cur().decide_member((tpl.var, tpl.alias.get(i, i)), tpl.kvars[i], frozenset([a.eps])):
                continue
        if len(dom) == 1:
            (j,) = dom
            t, v = a.syms[j]
            out.append(RTok(t, v, i))
        else:
            ns = "" if tpl.var == "k" else tpl.var
            out.append(RTok(SymStr("T" + ns, i, (tpl.var, i), tpl.kvars[i], a.types), SymStr("V" + ns, i, (tpl.var, i), tpl.kvars[i], a.values), i))
    return out


def kin(tok, kinds):
    if tok is None:
        return False
    k = tok.kind
    if isinstance(k, SymStr):
        return k.isin(kinds)
    return k in kinds


STORAGE = frozenset(["AUTO", "REGISTER", "STATIC", "EXTERN", "TYPEDEF", "_THREAD_LOCAL"])
FUNCSPEC = frozenset(["INLINE", "_NORETURN"])
QUALS = frozenset(["CONST", "RESTRICT", "VOLATILE", "_ATOMIC"])
TYPEKW = frozenset(["VOID", "_BOOL", "CHAR", "SHORT", "INT", "LONG", "FLOAT", "DOUBLE", "_COMPLEX", "SIGNED", "UNSIGNED", "__INT128"])
IDENTK = frozenset(["IDENT", "ID", "TYPEID"])
INTC = frozenset(["INT_CONST_DEC", "INT_CONST_OCT", "INT_CONST_HEX", "INT_CONST_BIN", "INT_CONST_CHAR"])
FLOATC = frozenset(["FLOAT_CONST", "HEX_FLOAT_CONST"])
CHARC = frozenset(["CHAR_CONST", "WCHAR_CONST", "U8CHAR_CONST", "U16CHAR_CONST", "U32CHAR_CONST"])
STRS = frozenset(["STRING_LITERAL", "WSTRING_LITERAL", "U8STRING_LITERAL", "U16STRING_LITERAL", "U32STRING_LITERAL"])
ASSIGN = frozenset(["EQUALS", "TIMESEQUAL", "DIVEQUAL", "MODEQUAL", "PLUSEQUAL", "MINUSEQUAL", "LSHIFTEQUAL", "RSHIFTEQUAL", "ANDEQUAL", "XOREQUAL", "OREQUAL"])
UNOPS = frozenset(["AND", "TIMES", "PLUS", "MINUS", "NOT", "LNOT"])

# 6.7.2p2: the legal multisets of type-specifier keywords
_VALID = set()
for _s in [
    "void", "char", "signed char", "unsigned char", "short", "signed short", "short int", "signed short int", "unsigned short", "unsigned short int",
    "int", "signed", "signed int", "unsigned", "unsigned int", "long", "signed long", "long int", "signed long int", "unsigned long", "unsigned long int",
    "long long", "signed long long", "long long int", "signed long long int", "unsigned long long", "unsigned long long int",
    "float", "double", "long double", "_Bool", "float _Complex", "double _Complex", "long double _Complex",
    "__int128", "signed __int128", "unsigned __int128",
]:
    _VALID.add(tuple(sorted(_s.split())))


class Scope:
    def __init__(self):
        self.stack = [dict()]
        self.kinds = ["file"]

    def push(self, kind="block"):
        self.stack.append(dict())
        self.kinds.append(kind)

    def pop(self):
        self.stack.pop()
        self.kinds.pop()

    def resolving_kind(self, name):
        """kind of the scope ('file', 'block', 'proto') whose declaration of `name` is the visible one, or None"""
        for s, k in zip(reversed(self.stack), reversed(self.kinds)):
            if name in s:
                return k
        return None

    def declare(self, name, is_typedef):
        cur = self.stack[-1]
        prev = cur.get(name)
        if prev is not None and prev != is_typedef:
            # same scope, different kind of symbol: constraint violation (6.7p3)
            raise RefReject(f"redeclaration of {name} as a different kind of symbol")
        cur[name] = is_typedef

    def is_type(self, name):
        for s in reversed(self.stack):
            if name in s:
                return s[name]
        return False


class RefParser:
    def __init__(self, toks, on_classify=None):
        self.toks = toks
        self.p = 0
        self.scope = Scope()
        self.classified = []  # (token index, name, is_type) for every identifier token classified by scope
        self.proto_resolved = set()  # token indices classified through a declaration in a function prototype scope
        self.suffix_ranges = []  # (index of '(', index of ')', function-suffix object) of every parameter list
        self.def_param_ranges = []  # (index of '(', index of ')') of the own parameter list of each function definition
        self.depth = 0

    # ------------------------------------------------------------ token helpers
    def la(self, k=0):
        i = self.p + k
        return self.toks[i] if i < len(self.toks) else None

    def at(self, *kinds):
        return kin(self.la(), kinds)

    def at2(self, *kinds):
        return kin(self.la(1), kinds)

    def take(self):
        t = self.la()
        if t is None:
            raise RefReject("unexpected end of input")
        self.p += 1
        return t

    def accept(self, kind):
        if kin(self.la(), (kind,)):
            return self.take()
        return None

    def expect(self, kind):
        t = self.take()
        if not kin(t, (kind,)):
            raise RefReject(f"expected {kind}")
        return t

    def name_of(self, tok):
        v = tok.val
        return v.concretize() if isinstance(v, SymStr) else v

    def is_ident(self, tok=None, k=0):
        return kin(self.la(k) if tok is None else tok, IDENTK)

    def is_typedef_name(self, k=0):
        t = self.la(k)
        if not kin(t, IDENTK):
            return False
        name = self.name_of(t)
        r = self.scope.is_type(name)
        self.classified.append((t.i, name, r))
        if self.scope.resolving_kind(name) == "proto":
            self.proto_resolved.add(t.i)
        return r

    def starts_decl_spec(self, k=0):
        t = self.la(k)
        if t is None:
            return False
        if kin(t, STORAGE | FUNCSPEC | QUALS | TYPEKW | frozenset(["STRUCT", "UNION", "ENUM", "_ALIGNAS"])):
            return True
        return self.is_typedef_name(k)

    def starts_type_name(self, k=0):
        t = self.la(k)
        if t is None:
            return False
        if kin(t, QUALS | TYPEKW | frozenset(["STRUCT", "UNION", "ENUM", "_ALIGNAS"])):
            return True
        return self.is_typedef_name(k)

    # ------------------------------------------------------------ A.2.4 external definitions
    def translation_unit(self):
        items = []
        if self.la() is None:
            raise RefReject("empty translation unit (6.9)")
        while self.la() is not None:
            items.extend(self.external_declaration())
        return ("file", items)

    def external_declaration(self):
        if self.at("PPPRAGMA", "_PRAGMA"):
            return [self.pragma()]
        if self.at("PPHASH"):
            raise RefReject("preprocessing directive")
        if self.at("_STATIC_ASSERT"):
            sa = self.static_assert()
            self.expect("SEMI")
            return [sa]
        if not self.starts_decl_spec():
            raise RefReject("declaration specifiers expected (implicit int is not C99)")
        return self.declaration_or_function(file_scope=True)

    def pragma(self):
        if self.accept("PPPRAGMA"):
            s = self.accept("PPPRAGMASTR")
            return ("pragma", s.val if s is not None else "")
        self.expect("_PRAGMA")
        self.expect("LPAREN")
        s = self.expect("STRING_LITERAL")
        self.expect("RPAREN")
        return ("pragma", s.val)

    def static_assert(self):
        self.expect("_STATIC_ASSERT")
        self.expect("LPAREN")
        cond = self.constant_expression()
        msg = None
        if self.accept("COMMA"):
            msg = self.string_literal()
        self.expect("RPAREN")
        return ("static_assert", cond, msg)

    # ------------------------------------------------------------ A.2.2 declarations
    def declaration_or_function(self, file_scope=False, allow_function=True, in_for=False):
        spec = self.declaration_specifiers()
        if self.accept("SEMI"):
            self.check_declares_something(spec)
            if spec["storage_l"]:
                raise RefUnsupported("storage class in a declaration without declarators")
            return [self.entity(spec, None, None, None)]
        first = True
        out = []
        while True:
            d = self.declarator(abstract=False)
            name = d["name"]
            is_td = "typedef" in spec["storage_l"]
            if first and allow_function and (self.at("LBRACE") or (self.starts_decl_spec() and d["chain"] and d["chain"][0][0] == "func")):
                # function definition: declarator must be a function declarator
                if not d["chain"] or d["chain"][0][0] != "func":
                    raise RefReject("function definition without function declarator")
                if is_td:
                    raise RefReject("typedef function definition")
                if not file_scope:
                    raise RefReject("nested function definition")
                self.scope.declare(name, False)
                func = d["chain"][0]
                self.def_param_ranges += [(a, b) for a, b, r in self.suffix_ranges if r is func]
                knr = []
                # parameters (and the declarations of a K&R declaration list) live in the body's block scope
                self.scope.push()
                if not self.at("LBRACE"):
                    if func[1] is None or func[1][0] != "idlist":
                        raise RefReject("declaration list without identifier list")
                    while not self.at("LBRACE"):
                        if not self.starts_decl_spec():
                            raise RefReject("declaration expected in K&R declaration list")
                        knr.extend(self.declaration_or_function(allow_function=False))
                    # 6.9.1p6: the declaration list declares only identifiers of the identifier list (a constraint:
                    # a program that declares anything else there is not valid, whatever its syntax)
                    listed = {n.concretize() if isinstance(n, SymStr) else n for n in func[1][1]}
                    if any(n not in listed for n in self.scope.stack[-1]):
                        raise RefReject("declaration list declares an identifier that is not a parameter")
                params = func[1]
                if params is not None:
                    if params[0] == "idlist":
                        for n in params[1]:
                            self.scope.declare(n.concretize() if isinstance(n, SymStr) else n, False)
                    else:
                        for prm in params[1]:
                            if prm[0] == "decl" and prm[1] is not None:
                                self.scope.declare(prm[1], False)
                body = self.compound_statement(push=False)
                self.scope.pop()
                return [("funcdef", self.entity(spec, d, None, None), knr, body)]
            first = False
            # scope of the identifier begins just after its declarator (6.2.1p7)
            self.scope.declare(name, is_td)
            init = None
            if self.accept("EQUALS"):
                if is_td:
                    raise RefReject("typedef with initializer")
                init = self.initializer()
            out.append(self.entity(spec, d, init, None))
            if self.accept("COMMA"):
                continue
            self.expect("SEMI")
            return out

    def check_declares_something(self, spec):
        b = spec["base"]
        if b[0] in ("struct", "union"):
            if b[1] is None:
                raise RefReject("declaration declares nothing (6.7p2)")
        elif b[0] == "enum":
            if b[2] is None:
                raise RefReject("forward reference to an enum type / declares nothing (6.7.2.3)")
        else:
            raise RefReject("declaration declares nothing (6.7p2)")

    def entity(self, spec, d, init, bitsize, kind=None):
        """neutral record of one declared entity"""
        chain = list(d["chain"]) if d else []
        for outer, inner in zip(chain, chain[1:]):
            # 6.7.5.2p1 / 6.7.5.3p1: no arrays of functions, no functions returning functions or arrays.
            # A conforming compiler must diagnose these; which parameter list belongs to the definition is
            # meaningless for them, so they carry no claim.
            if (outer[0] == "func" and inner[0] in ("func", "array")) or (outer[0] == "array" and inner[0] == "func"):
                raise RefUnsupported("function returning function/array or array of functions (constraint violation)")
        typ = ("base", list(spec["quals"]), spec["base"])
        for lvl in reversed(chain):
            if lvl[0] == "ptr":
                typ = ("ptr", lvl[1], typ)
            elif lvl[0] == "array":
                typ = ("array", lvl[1], lvl[2], typ)
            else:
                typ = ("func", lvl[1], typ)
        name = d["name"] if d else None
        if kind == "typename":
            return ("typename", typ)
        if "typedef" in spec["storage_l"]:
            return ("typedef", name, typ, list(spec["storage"]))
        return ("decl", name, typ, list(spec["storage"]), list(spec["funcspec"]), list(spec["align"]), init, bitsize)

    def declaration_specifiers(self, specqual_only=False):
        storage, storage_l, funcspec, quals, align = [], [], [], [], []
        kws = []
        base = None
        while True:
            t = self.la()
            if t is None:
                break
            if kin(t, ("_ALIGNAS",)):
                align.append(self.alignment_specifier())
                continue
            if kin(t, ("_ATOMIC",)) and self.at2("LPAREN"):
                if base is not None or kws:
                    raise RefReject("two type specifiers")
                self.take()
                self.take()
                tn = self.type_name()
                self.expect("RPAREN")
                base = ("atomic", tn)
                continue
            if kin(t, QUALS):
                quals.append(self.take().val)
                continue
            if kin(t, STORAGE):
                if specqual_only:
                    raise RefReject("storage class in specifier-qualifier list")
                s = self.take()
                storage.append(s.val)
                storage_l.append(self.name_of(s))
                continue
            if kin(t, FUNCSPEC):
                if specqual_only:
                    raise RefReject("function specifier in specifier-qualifier list")
                funcspec.append(self.take().val)
                continue
            if kin(t, TYPEKW):
                if base is not None:
                    raise RefReject("two type specifiers")
                kws.append(self.take().val)
                continue
            if kin(t, ("STRUCT", "UNION")):
                if base is not None or kws:
                    raise RefReject("two type specifiers")
                base = self.struct_or_union_specifier()
                continue
            if kin(t, ("ENUM",)):
                if base is not None or kws:
                    raise RefReject("two type specifiers")
                base = self.enum_specifier()
                continue
            if kin(t, IDENTK):
                if base is None and not kws and self.is_typedef_name():
                    base = ("names", [self.take().val])
                    continue
                break
            break
        if base is None and not kws:
            raise RefReject("at least one type specifier is required (6.7.2p2)")
        if kws:
            names = [k.concretize() if isinstance(k, SymStr) else k for k in kws]
            if tuple(sorted(names)) not in _VALID:
                raise RefReject("invalid combination of type specifiers (6.7.2p2)")
            base = ("names", list(kws))
        st = [s for s in storage_l if s != "_Thread_local"]
        if len(st) > 1 or ("_Thread_local" in storage_l and st and st[0] not in ("static", "extern")) or storage_l.count("_Thread_local") > 1:
            raise RefReject("more than one storage class (6.7.1p2)")
        return {"storage": storage, "storage_l": storage_l, "funcspec": funcspec, "quals": quals, "align": align, "base": base}

    def alignment_specifier(self):
        self.expect("_ALIGNAS")
        self.expect("LPAREN")
        if self.starts_type_name():
            r = ("alignas-type", self.type_name())
        else:
            r = ("alignas-expr", self.constant_expression())
        self.expect("RPAREN")
        return r

    def struct_or_union_specifier(self):
        kw = self.take()
        which = self.name_of(kw)  # 'struct' / 'union'
        tag = None
        if self.is_ident():
            tag = self.take().val
        if self.accept("LBRACE"):
            members = []
            if self.at("RBRACE"):
                raise RefReject("empty struct (not C99)")
            while not self.at("RBRACE"):
                members.extend(self.struct_declaration())
            self.expect("RBRACE")
            return (which, tag, members)
        if tag is None:
            raise RefReject("struct without tag or body")
        return (which, tag, None)

    def struct_declaration(self):
        if self.at("PPPRAGMA", "_PRAGMA"):
            return [self.pragma()]
        if self.at("_STATIC_ASSERT"):
            sa = self.static_assert()
            self.expect("SEMI")
            return [sa]
        if not self.starts_type_name():
            raise RefReject("specifier-qualifier list expected")
        spec = self.declaration_specifiers(specqual_only=True)
        if self.accept("SEMI"):
            b = spec["base"]
            if b[0] in ("struct", "union") and b[1] is None and b[2] is not None:
                return [self.entity(spec, None, None, None)]  # C11 anonymous struct/union member
            raise RefReject("struct member declares nothing")
        out = []
        while True:
            if self.accept("COLON"):
                out.append(self.entity(spec, None, None, self.constant_expression()))
            else:
                d = self.declarator(abstract=False)
                bits = None
                if self.accept("COLON"):
                    bits = self.constant_expression()
                out.append(self.entity(spec, d, None, bits))
            if self.accept("COMMA"):
                continue
            self.expect("SEMI")
            return out

    def enum_specifier(self, in_expression=False):
        self.expect("ENUM")
        tag = None
        if self.is_ident():
            tag = self.take().val
        if self.accept("LBRACE"):
            if getattr(self, "_in_type_name_expr", 0):
                raise RefUnsupported("enumerators declared inside an expression's type name")
            enums = []
            while True:
                t = self.take()
                if not kin(t, IDENTK):
                    raise RefReject("enumerator name expected")
                name = self.name_of(t)
                val = None
                if self.accept("EQUALS"):
                    val = self.constant_expression()
                # scope of an enumeration constant begins just after its enumerator (6.2.1p7)
                self.scope.declare(name, False)
                enums.append(("enumerator", t.val, val))
                if self.accept("COMMA"):
                    if self.at("RBRACE"):
                        break
                    continue
                break
            self.expect("RBRACE")
            return ("enum", tag, enums)
        if tag is None:
            raise RefReject("enum without tag or list")
        return ("enum", tag, None)

    # declarators -------------------------------------------------------------
    def pointer(self):
        """list of ('ptr', quals) outermost-last as written: '* const *' -> [ptr(const), ptr()]"""
        ptrs = []
        while self.accept("TIMES"):
            q = []
            while self.at(*QUALS):
                q.append(self.take().val)
            ptrs.append(("ptr", q))
        return ptrs

    def declarator(self, abstract, param=False):
        """returns {'name': str|None, 'chain': [levels outermost first]}.
        Reading a declarator inside-out (6.7.5): suffixes bind tighter than the
        pointer prefix; a parenthesised declarator is read first."""
        ptrs = self.pointer()
        d = self.direct_declarator(abstract, param)
        # 'pointer direct-declarator': the pointers apply AFTER the direct declarator's own derivations
        # chain is outermost-first: T D where D = * D1 : D1's derivations come first (outer), then pointer
        chain = d["chain"] + [("ptr", q) for _, q in reversed(ptrs)]
        return {"name": d["name"], "chain": chain}

    def direct_declarator(self, abstract, param):
        name = None
        inner = None
        if self.at("LPAREN"):
            # '(' declarator ')' unless (abstract/param) it starts a parameter list
            is_params = False
            if abstract or param:
                if self.at2("RPAREN") or self.starts_decl_spec(1):
                    is_params = True
            if not is_params:
                if abstract is True and not (self.at2("TIMES", "LPAREN", "LBRACKET")):
                    raise RefReject("abstract declarator expected")
                self.take()
                inner = self.declarator(abstract, param)
                self.expect("RPAREN")
                name = inner["name"]
        elif self.is_ident():
            if abstract is True:
                raise RefReject("identifier in abstract declarator")
            t = self.take()
            name = self.name_of(t)
        else:
            if abstract is False:
                raise RefReject("declarator expected")
        suffixes = []
        while True:
            if self.at("LBRACKET"):
                suffixes.append(self.array_suffix())
                continue
            if self.at("LPAREN"):
                suffixes.append(self.function_suffix(named=name is not None))
                continue
            break
        # derivations closest to the identifier come first: those of a parenthesised inner declarator,
        # then the suffixes left to right ("(*p)[3]": pointer to array; "a[2][3]": array of array)
        return {"name": name, "chain": (inner["chain"] if inner else []) + suffixes}

    def array_suffix(self):
        self.expect("LBRACKET")
        dq = []
        dim = None
        if self.accept("STATIC"):
            dq.append("static")
            while self.at(*QUALS):
                dq.append(self.take().val)
            dim = self.assignment_expression()
        else:
            while self.at(*QUALS):
                dq.append(self.take().val)
            if self.accept("STATIC"):
                dq.append("static")
                dim = self.assignment_expression()
            elif self.at("TIMES") and self.at2("RBRACKET"):
                self.take()
                dim = ("vla-star",)
            elif not self.at("RBRACKET"):
                dim = self.assignment_expression()
        self.expect("RBRACKET")
        return ("array", dim, dq)

    def function_suffix(self, named):
        i0 = self.la().i if self.la() is not None else -1
        res = self._function_suffix(named)
        self.suffix_ranges.append((i0, self.toks[self.p - 1].i, res))
        return res

    def _function_suffix(self, named):
        self.expect("LPAREN")
        if self.accept("RPAREN"):
            return ("func", None)
        if self.starts_decl_spec():
            # prototype scope
            self.scope.push("proto")
            try:
                params = []
                while True:
                    if self.at("ELLIPSIS"):
                        if not params:
                            raise RefReject("'...' needs a named parameter")
                        self.take()
                        params.append(("ellipsis",))
                        break
                    params.append(self.parameter_declaration())
                    if self.accept("COMMA"):
                        continue
                    break
                self.expect("RPAREN")
            finally:
                self.scope.pop()
            return ("func", ("params", params))
        # identifier list (only meaningful in a function definition)
        names = []
        vals = []
        while True:
            t = self.take()
            if not kin(t, IDENTK):
                raise RefReject("identifier list expected")
            n = self.name_of(t)
            if self.scope.is_type(n):
                raise RefReject("typedef name in identifier list")
            names.append(n)
            vals.append(t.val)
            if self.accept("COMMA"):
                continue
            break
        self.expect("RPAREN")
        return ("func", ("idlist", vals))

    def parameter_declaration(self):
        spec = self.declaration_specifiers()
        if [s for s in spec["storage_l"] if s != "register"]:
            raise RefReject("storage class other than register in parameter")
        if self.at("COMMA", "RPAREN"):
            return self.entity(spec, None, None, None, kind="typename")
        d = self.declarator(abstract=None, param=True)
        if d["name"] is None:
            return self.entity(spec, d, None, None, kind="typename")
        if d["name"] in self.scope.stack[-1]:
            # two parameters with the same name: redeclaration with no linkage (6.7p3), must be diagnosed
            raise RefReject("duplicate parameter name")
        self.scope.declare(d["name"], False)
        return self.entity(spec, d, None, None)

    def type_name(self):
        if not self.starts_type_name():
            raise RefReject("type name expected")
        spec = self.declaration_specifiers(specqual_only=True)
        d = None
        if self.at("TIMES", "LPAREN", "LBRACKET"):
            d = self.declarator(abstract=True)
        return self.entity(spec, d, None, None, kind="typename")

    # initializers ------------------------------------------------------------
    def initializer(self):
        if self.accept("LBRACE"):
            if self.at("RBRACE"):
                raise RefReject("empty initializer (not C99)")
            items = self.initializer_list()
            self.expect("RBRACE")
            return ("initlist", items)
        return self.assignment_expression()

    def initializer_list(self):
        items = []
        while True:
            des = []
            while self.at("LBRACKET", "PERIOD"):
                if self.accept("LBRACKET"):
                    des.append(self.constant_expression())
                    self.expect("RBRACKET")
                else:
                    self.take()
                    t = self.take()
                    if not kin(t, IDENTK):
                        raise RefReject("member name expected")
                    des.append(("id", t.val))
            if des:
                self.expect("EQUALS")
                items.append(("desig", des, self.initializer()))
            else:
                items.append(self.initializer())
            if self.accept("COMMA"):
                if self.at("RBRACE"):
                    break
                continue
            break
        return items

    # ------------------------------------------------------------ A.2.3 statements
    def compound_statement(self, push=True):
        self.expect("LBRACE")
        if push:
            self.scope.push()
        items = []
        while not self.at("RBRACE"):
            if self.la() is None:
                raise RefReject("unterminated block")
            items.extend(self.block_item())
        self.expect("RBRACE")
        if push:
            self.scope.pop()
        return ("compound", items)

    def block_item(self):
        if self.at("_STATIC_ASSERT"):
            sa = self.static_assert()
            self.expect("SEMI")
            return [sa]
        if self.at("PPPRAGMA", "_PRAGMA"):
            return [self.pragma()]
        if self.is_ident() and self.at2("COLON"):
            return [self.statement()]
        if self.starts_decl_spec():
            return self.declaration_or_function(allow_function=False)
        return [self.statement()]

    def label_body(self):
        """the statement after a case / default label (grammar: label ':' statement; a run of pragmas before
        that statement is held with it in a synthesized block, like in every sub-statement position)"""
        return [self.substatement()]

    def substatement(self):
        """statement in if/while/for/do/switch/label position; a directly preceding run of
        pragmas is read as a block holding the pragmas and the statement (see interp.py)"""
        if self.at("PPPRAGMA", "_PRAGMA"):
            prs = []
            while self.at("PPPRAGMA", "_PRAGMA"):
                prs.append(self.pragma())
            return ("compound", PragmaWrap(prs + [self.statement()]))
        return self.statement()

    def statement(self):
        t = self.la()
        if t is None:
            raise RefReject("statement expected")
        if self.is_ident() and self.at2("COLON"):
            name = self.take()
            self.take()
            return ("label", name.val, self.substatement())
        if kin(t, ("CASE",)):
            self.take()
            e = self.constant_expression()
            self.expect("COLON")
            return ("case", e, self.label_body())
        if kin(t, ("DEFAULT",)):
            self.take()
            self.expect("COLON")
            return ("default", self.label_body())
        if kin(t, ("LBRACE",)):
            return self.compound_statement()
        if kin(t, ("SEMI",)):
            self.take()
            return ("empty",)
        if kin(t, ("IF",)):
            self.take()
            self.expect("LPAREN")
            c = self.expression()
            self.expect("RPAREN")
            th = self.substatement()
            el = None
            if self.accept("ELSE"):
                el = self.substatement()
            return ("if", c, th, el)
        if kin(t, ("SWITCH",)):
            self.take()
            self.expect("LPAREN")
            c = self.expression()
            self.expect("RPAREN")
            if self.at("PPPRAGMA", "_PRAGMA"):
                # pragmas between the ')' and the body "appear at their own position without otherwise changing the
                # tree": the body is still the switch block and is grouped under its labels
                prs = []
                while self.at("PPPRAGMA", "_PRAGMA"):
                    prs.append(self.pragma())
                return ("switch", c, ("compound", PragmaWrap(prs + [regroup_switch(self.statement())])))
            return ("switch", c, regroup_switch(self.statement()))
        if kin(t, ("WHILE",)):
            self.take()
            self.expect("LPAREN")
            c = self.expression()
            self.expect("RPAREN")
            return ("while", c, self.substatement())
        if kin(t, ("DO",)):
            self.take()
            s = self.substatement()
            self.expect("WHILE")
            self.expect("LPAREN")
            c = self.expression()
            self.expect("RPAREN")
            self.expect("SEMI")
            return ("dowhile", s, c)
        if kin(t, ("FOR",)):
            self.take()
            self.expect("LPAREN")
            pushed = False
            if self.starts_decl_spec():
                self.scope.push()  # 6.8.5p5: the for statement is a block
                pushed = True
                decls = self.declaration_or_function(allow_function=False)
                for dcl in decls:
                    if dcl[0] != "decl" or [s for s in dcl[3] if str(s) not in ("auto", "register")]:
                        pass  # 6.8.5p3 is a semantic constraint; not diagnosed here
                init = ("decls", decls)
            else:
                init = None if self.at("SEMI") else self.expression()
                self.expect("SEMI")
            c = None if self.at("SEMI") else self.expression()
            self.expect("SEMI")
            n = None if self.at("RPAREN") else self.expression()
            self.expect("RPAREN")
            body = self.substatement()
            if pushed:
                self.scope.pop()
            return ("for", init, c, n, body)
        if kin(t, ("GOTO",)):
            self.take()
            n = self.take()
            if not kin(n, IDENTK):
                raise RefReject("label name expected")
            self.expect("SEMI")
            return ("goto", n.val)
        if kin(t, ("BREAK",)):
            self.take()
            self.expect("SEMI")
            return ("break",)
        if kin(t, ("CONTINUE",)):
            self.take()
            self.expect("SEMI")
            return ("continue",)
        if kin(t, ("RETURN",)):
            self.take()
            e = None if self.at("SEMI") else self.expression()
            self.expect("SEMI")
            return ("return", e)
        if kin(t, ("PPPRAGMA", "_PRAGMA")):
            return self.pragma()
        if kin(t, ("_STATIC_ASSERT",)):
            raise RefReject("static assertion is a declaration, not a statement")
        e = self.expression()
        self.expect("SEMI")
        return ("expr", e)

    # ------------------------------------------------------------ A.2.1 expressions
    def expression(self):
        e = self.assignment_expression()
        if not self.at("COMMA"):
            return e
        es = [e]
        while self.accept("COMMA"):
            es.append(self.assignment_expression())
        return ("comma", es)

    def assignment_expression(self):
        # conditional-expression | unary-expression assignment-operator assignment-expression
        lhs = self.conditional_expression()
        if self.at(*ASSIGN):
            if not getattr(self, "_last_was_unary", False):
                raise RefReject("assignment to a non-unary expression")
            op = self.take()
            rhs = self.assignment_expression()
            self._last_was_unary = False
            return ("assign", op.val, lhs, rhs)
        return lhs

    def constant_expression(self):
        return self.conditional_expression()

    def conditional_expression(self):
        c = self.binary(0)
        if self.accept("CONDOP"):
            t = self.expression()
            self.expect("COLON")
            f = self.conditional_expression()
            self._last_was_unary = False
            return ("cond", c, t, f)
        return c

    # the ten layers of 6.5.5 - 6.5.14, written as one table-driven ladder (each level is left-associative)
    LEVELS = [("LOR",), ("LAND",), ("OR",), ("XOR",), ("AND",), ("EQ", "NE"), ("LT", "GT", "LE", "GE"), ("LSHIFT", "RSHIFT"), ("PLUS", "MINUS"), ("TIMES", "DIVIDE", "MOD")]

    def binary(self, level):
        if level == len(self.LEVELS):
            return self.cast_expression()
        lhs = self.binary(level + 1)
        while self.at(*self.LEVELS[level]):
            op = self.take()
            rhs = self.binary(level + 1)
            lhs = ("binop", op.val, lhs, rhs)
            self._last_was_unary = False
        return lhs

    def paren_type_name_ahead(self):
        return self.at("LPAREN") and self.starts_type_name(1)

    def cast_expression(self):
        if self.paren_type_name_ahead():
            save = self.p
            self.take()
            self._in_type_name_expr = getattr(self, "_in_type_name_expr", 0) + 1
            try:
                tn = self.type_name()
            finally:
                self._in_type_name_expr -= 1
            self.expect("RPAREN")
            if self.at("LBRACE"):
                # compound literal: a postfix-expression
                self.p = save
                return self.unary_expression()
            e = self.cast_expression()
            self._last_was_unary = False
            return ("cast", tn, e)
        return self.unary_expression()

    def unary_expression(self):
        t = self.la()
        if kin(t, ("PLUSPLUS", "MINUSMINUS")):
            op = self.take()
            e = self.unary_expression()
            self._last_was_unary = True
            return ("unary", op.val, e)
        if kin(t, UNOPS):
            op = self.take()
            e = self.cast_expression()
            self._last_was_unary = True
            return ("unary", op.val, e)
        if kin(t, ("SIZEOF",)):
            self.take()
            if self.paren_type_name_ahead():
                save = self.p
                self.take()
                self._in_type_name_expr = getattr(self, "_in_type_name_expr", 0) + 1
                try:
                    tn = self.type_name()
                finally:
                    self._in_type_name_expr -= 1
                self.expect("RPAREN")
                if self.at("LBRACE"):
                    # sizeof applied to a compound literal (a unary-expression)
                    self.p = save
                    e = self.unary_expression()
                    self._last_was_unary = True
                    return ("sizeof-expr", e)
                self._last_was_unary = True
                return ("sizeof-type", tn)
            e = self.unary_expression()
            self._last_was_unary = True
            return ("sizeof-expr", e)
        if kin(t, ("_ALIGNOF",)):
            self.take()
            self.expect("LPAREN")
            self._in_type_name_expr = getattr(self, "_in_type_name_expr", 0) + 1
            try:
                tn = self.type_name()
            finally:
                self._in_type_name_expr -= 1
            self.expect("RPAREN")
            self._last_was_unary = True
            return ("alignof-type", tn)
        return self.postfix_expression()

    def postfix_expression(self):
        if self.paren_type_name_ahead():
            self.take()
            self._in_type_name_expr = getattr(self, "_in_type_name_expr", 0) + 1
            try:
                tn = self.type_name()
            finally:
                self._in_type_name_expr -= 1
            self.expect("RPAREN")
            self.expect("LBRACE")
            if self.at("RBRACE"):
                raise RefReject("empty compound literal (not C99)")
            items = self.initializer_list()
            self.expect("RBRACE")
            e = ("complit", tn, ("initlist", items))
        else:
            e = self.primary_expression()
        while True:
            if self.accept("LBRACKET"):
                i = self.expression()
                self.expect("RBRACKET")
                e = ("index", e, i)
                continue
            if self.accept("LPAREN"):
                args = []
                if not self.at("RPAREN"):
                    while True:
                        args.append(self.assignment_expression())
                        if self.accept("COMMA"):
                            continue
                        break
                self.expect("RPAREN")
                e = ("call", e, args)
                continue
            if self.at("PERIOD", "ARROW"):
                op = self.take()
                n = self.take()
                if not kin(n, IDENTK):
                    raise RefReject("member name expected")
                e = ("member", op.val, e, n.val)
                continue
            if self.at("PLUSPLUS", "MINUSMINUS"):
                op = self.take()
                e = ("postfix", op.val, e)
                continue
            break
        self._last_was_unary = True
        return e

    def string_literal(self):
        """adjacent string literal tokens form one literal; if any piece has an encoding prefix the whole
        literal has it (C99 6.4.5p4, C11 6.4.5p5).  Two DIFFERENT prefixes: implementation-defined, no claim."""
        PREFIXED = ("WSTRING_LITERAL", "U8STRING_LITERAL", "U16STRING_LITERAL", "U32STRING_LITERAL")

        def prefix_kind(t):
            for k in PREFIXED:
                if kin(t, (k,)):
                    return k
            return None

        t = self.take()
        if not kin(t, STRS):
            raise RefReject("string literal expected")
        pk = prefix_kind(t)
        pieces = [t.val]
        while self.at(*STRS):
            n = self.take()
            k = prefix_kind(n)
            if k is not None:
                if pk is not None and k != pk:
                    raise RefUnsupported("concatenation of differently prefixed string literals")
                pk = k
            pieces.append(n.val)
        return ("str", pieces)

    def primary_expression(self):
        t = self.la()
        if t is None:
            raise RefReject("expression expected")
        if kin(t, IDENTK):
            if self.is_typedef_name():
                raise RefReject("typedef name used as an expression")
            self.take()
            return ("id", t.val)
        if kin(t, INTC | FLOATC | CHARC):
            self.take()
            return ("const-tok", t.kind, t.val)
        if kin(t, STRS):
            return self.string_literal()
        if kin(t, ("LPAREN",)):
            self.take()
            e = self.expression()
            self.expect("RPAREN")
            return e
        if kin(t, ("OFFSETOF",)):
            self.take()
            self.expect("LPAREN")
            tn = self.type_name()
            self.expect("COMMA")
            n = self.take()
            if not kin(n, IDENTK):
                raise RefReject("member designator expected")
            d = ("id", n.val)
            while True:
                if self.accept("PERIOD"):
                    m = self.take()
                    if not kin(m, IDENTK):
                        raise RefReject("member name expected")
                    d = ("member", ".", d, m.val)
                    continue
                if self.accept("LBRACKET"):
                    i = self.expression()
                    self.expect("RBRACKET")
                    d = ("index", d, i)
                    continue
                break
            self.expect("RPAREN")
            return ("call", ("id", t.val), [tn, d])
        raise RefReject("expression expected")


class PragmaWrap(list):
    """items of a block that was not written: pragmas + the statement they precede in a sub-statement position"""


def regroup_switch(body):
    """The property's description of a switch body: every statement ends up under the nearest
    preceding case/default label in source order, consecutive labels kept as siblings."""
    if body[0] != "compound":
        return body
    out = []
    last = None
    for it in body[1]:
        if it[0] in ("case", "default"):
            # flatten a chain of directly nested labels: case 1: case 2: s  ->  siblings
            cur = it
            while True:
                stmts = cur[-1]
                inner = stmts[0] if stmts else None
                if inner is not None and inner[0] in ("case", "default") and len(stmts) == 1:
                    out.append(cur[:-1] + ([],))
                    cur = inner
                    continue
                if (inner is not None and len(stmts) == 1 and inner[0] == "compound" and isinstance(inner[1], PragmaWrap)
                        and inner[1][-1][0] in ("case", "default")):
                    # case 1: <pragmas> case 2: ...  - the labels stay siblings, the pragmas are the first label's statements
                    out.append(cur[:-1] + (list(inner[1][:-1]),))
                    cur = inner[1][-1]
                    continue
                out.append(cur[:-1] + (list(stmts),))
                break
            last = out[-1]
        elif last is None:
            out.append(it)
        else:
            last[-1].append(it)
    return ("compound", out)
