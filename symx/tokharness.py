"""Helpers shared by the token-level (symx-tok) checks."""
from __future__ import annotations

import os
import traceback

from . import engine as E
from . import toklex, symparser, loader
from .checklib import Census

REPO_PREFIX = os.path.abspath(loader.REPO) + os.sep


def exc_signature(e):
    """(class, function, source line) of the innermost frame that lies in the
    repository; in_repo=False when the exception was raised outside it"""
    tb = traceback.extract_tb(e.__traceback__)
    inner = tb[-1]
    in_repo = os.path.abspath(inner.filename).startswith(REPO_PREFIX)
    fr = inner
    if not in_repo:
        for f in reversed(tb):
            if os.path.abspath(f.filename).startswith(REPO_PREFIX):
                fr = f
                break
    return {
        "type": type(e).__name__,
        "func": fr.name,
        "line": (fr.line or "").strip(),
        "in_repo": in_repo,
        "sig": f"{type(e).__name__}@{fr.name}:{(fr.line or '').strip()}",
    }


class Ctx:
    """a context: fixed prefix, n holes over a domain, fixed suffix"""

    def __init__(self, name, prefix, suffix=(), domain=None):
        self.name = name
        self.prefix = list(prefix)
        self.suffix = list(suffix)
        self.domain = domain  # None = whole alphabet; else iterable of symbol names

    def template(self, alpha, n):
        dom = None if self.domain is None else list(self.domain)
        return toklex.Template(alpha, self.prefix + [dom] * n + self.suffix, name=f"{self.name}/{n}")


def witness_tokens(tpl, eng):
    m = eng.model()
    if m is None:
        raise E.HarnessError("no model for a feasible path")
    return tpl.witness(m)


def split_level(tpl, ctx, n):
    """input position at which to cut paths for work distribution"""
    if n <= 2:
        return None
    return len(ctx.prefix) + max(1, n - 3)


def sample_census(job, npaths=80):
    """functions of the repository entered on the first `npaths` paths of `job`"""
    eng = E.ENG = job.make_engine()
    c = Census()
    k = 0
    with c:
        for _ in eng.explore(job.once):
            k += 1
            if k >= npaths:
                break
    E.ENG = None
    return c.seen


def run_contexts(report, alpha, contexts, max_holes, path_fn, min_holes=0, sym_coords=False, file_tags=False,
                 census=True, job_kw=None, parallel_from=3, pat_parallel_from=4):
    """Explore every context with 0..max_holes(ctx) holes.  path_fn(Lex, tpl) runs
    one path and returns a record.  Returns {sig: [violation dicts]}."""
    candidates = {}
    for ctx in contexts:
        nmax = max_holes(ctx)
        prev = 0
        is_pat = isinstance(ctx, PatCtx)
        for n in ([0] if is_pat else range(min_holes, nmax + 1)):
            tpl = ctx.template(alpha, n)
            Lex = toklex.make_lexer_class(tpl, sym_coords=sym_coords, file_tags=file_tags)

            def make_engine(tpl=tpl):
                eng = E.Engine()
                tpl.declare(eng, coords=sym_coords)
                return eng

            def once(tpl=tpl, Lex=Lex):
                return path_fn(Lex, tpl)

            lvl = split_level(tpl, ctx, n)
            if is_pat:
                nh = sum(1 for f in tpl.fixed if not f)
                first = tpl.fixed.index(False) if nh else 0
                job = E.Job(ctx.name, make_engine, once, split=("input", first + 2) if nh >= pat_parallel_from else None, **(job_kw or {}))
                res = E.run_job(job, workers=None if nh >= pat_parallel_from else 1)
                report.add_run(job.name, res, describe=tpl.describe())
                for v in res.violations:
                    candidates.setdefault(v["sig"], []).append(v)
                continue
            job = E.Job(f"{ctx.name}/{n}", make_engine, once, split=("input", lvl) if lvl else None, **(job_kw or {}))
            if census and n == min(2, nmax):
                report.functions |= sample_census(job)
            res = E.run_job(job, workers=None if (n >= parallel_from and prev >= 600) else 1)
            prev = res.paths
            report.add_run(job.name, res, describe=tpl.describe())
            for v in res.violations:
                candidates.setdefault(v["sig"], []).append(v)
    return candidates


# --------------------------------------------------------------------------- AST comparison
from .proxies import SymStr, SymInt, FileTag  # noqa: E402


def _leaf_equal(a, b):
    if a is b:
        return True
    if isinstance(a, SymStr) or isinstance(b, SymStr):
        if isinstance(a, SymStr) and isinstance(b, SymStr):
            if a.key == b.key and a.kind == b.kind:
                return True
        return a == b  # decides / concretises
    if isinstance(a, SymInt) or isinstance(b, SymInt):
        if isinstance(a, SymInt) and isinstance(b, SymInt):
            return a.e.eq(b.e) or E.cur().prove(a.e == b.e) == "proved"
        return False
    if isinstance(a, str) and isinstance(b, str):
        return str.__eq__(str(a), str(b))
    return type(a) == type(b) and a == b


def ast_diff(a, b, coords=False, path="ast"):
    """first structural difference between two pycparser ASTs (None if equal).
    Every slot but coord/__weakref__ is compared; with coords=True coord too."""
    if a is None or b is None:
        return None if a is b else f"{path}: {type(a).__name__} vs {type(b).__name__}"
    if isinstance(a, (list, tuple)):
        if not isinstance(b, (list, tuple)) or len(a) != len(b):
            return f"{path}: list length {len(a)} vs {len(b) if isinstance(b, (list, tuple)) else type(b).__name__}"
        for i, (x, y) in enumerate(zip(a, b)):
            d = ast_diff(x, y, coords, f"{path}[{i}]")
            if d:
                return d
        return None
    slots = getattr(type(a), "__slots__", None)
    if slots is not None and hasattr(a, "children"):
        if type(a).__name__ != type(b).__name__:
            return f"{path}: {type(a).__name__} vs {type(b).__name__}"
        for name in slots:
            if name == "__weakref__" or (name == "coord" and not coords):
                continue
            d = ast_diff(getattr(a, name), getattr(b, name), coords, f"{path}.{name}")
            if d:
                return d
        return None
    if hasattr(a, "file") and hasattr(a, "line") and hasattr(b, "file"):  # Coord
        for name in ("file", "line", "column"):
            if not _leaf_equal(getattr(a, name), getattr(b, name)):
                return f"{path}.{name}: {getattr(a, name)!s} vs {getattr(b, name)!s}"
        return None
    return None if _leaf_equal(a, b) else f"{path}: {a!s} vs {b!s}"


def node_ids(node, acc=None):
    acc = set() if acc is None else acc
    if node is None:
        return acc
    if isinstance(node, (list, tuple)):
        for x in node:
            node_ids(x, acc)
        return acc
    if hasattr(node, "children") and hasattr(type(node), "__slots__"):
        acc.add(id(node))
        for name in type(node).__slots__:
            if name in ("coord", "__weakref__"):
                continue
            node_ids(getattr(node, name), acc)
    return acc


class PatCtx:
    """a fixed token pattern in which some positions are holes: the pattern is a string of
    space-separated symbols; a word starting with '?' names a hole class in `classes`"""

    def __init__(self, name, prefix, pattern, suffix, classes):
        self.name = name
        self.prefix = list(prefix)
        self.suffix = list(suffix)
        self.pattern = pattern.split()
        self.classes = classes
        self.domain = None

    def template(self, alpha, n):
        """A class whose alternatives are single symbols is one hole.  A class with multi-token (or empty)
        alternatives becomes a group of L positions (L = longest alternative), shorter alternatives padded with
        EPS, and a fresh z3 choice variable ties the positions of the group to one alternative."""
        import z3

        pos = []
        groups = []
        for w in self.pattern:
            if w.startswith("?") and w in self.classes:
                alts = [a.split() for a in self.classes[w]]
                if all(len(a) == 1 for a in alts):
                    pos.append([a[0] for a in alts])
                    continue
                L = max(len(a) for a in alts)
                start = len(self.prefix) + len(pos)
                for j in range(L):
                    pos.append(sorted({alpha.idx(a[j]) if j < len(a) else alpha.eps for a in alts}))
                groups.append((start, alts, L))
            else:
                pos.append(w)
        tpl = toklex.Template(alpha, self.prefix + pos + self.suffix, name=self.name)
        for start, alts, L in groups:
            c = z3.Int(f"{tpl.var}choice{start}")
            tpl.extra += [c >= 0, c < len(alts)]
            for j in range(L):
                for ai, a in enumerate(alts):
                    tpl.extra.append(z3.Implies(c == ai, tpl.kvars[start + j] == (alpha.idx(a[j]) if j < len(a) else alpha.eps)))
        return tpl
