"""Helpers shared by the token-level (symx-tok) checks."""
from __future__ import annotations

import os
import traceback

from . import engine as E
from . import toklex, symparser, loader
from .checklib import Census

REPO_PREFIX = os.path.abspath(loader.REPO) + os.sep


def exc_signature(e):
    """(class, function, source line) of the innermost frame that lies in the
    repository; in_repo=False when the exception was raised outside it"""
    tb = traceback.extract_tb(e.__traceback__)
    inner = tb[-1]
    in_repo = os.path.abspath(inner.filename).startswith(REPO_PREFIX)
    fr = inner
    if not in_repo:
        for f in reversed(tb):
            if os.path.abspath(f.filename).startswith(REPO_PREFIX):
                fr = f
                break
    return {
        "type": type(e).__name__,
        "func": fr.name,
        "line": (fr.line or "").strip(),
        "in_repo": in_repo,
        "sig": f"{type(e).__name__}@{fr.name}:{(fr.line or '').strip()}",
    }


class Ctx:
    """a context: fixed prefix, n holes over a domain, fixed suffix"""

    def __init__(self, name, prefix, suffix=(), domain=None):
        self.name = name
        self.prefix = list(prefix)
        self.suffix = list(suffix)
        self.domain = domain  # None = whole alphabet; else iterable of symbol names

    def template(self, alpha, n):
        dom = None if self.domain is None else list(self.domain)
        return toklex.Template(alpha, self.prefix + [dom] * n + self.suffix, name=f"{self.name}/{n}")


def witness_tokens(tpl, eng):
    m = eng.model()
    if m is None:
        raise E.HarnessError("no model for a feasible path")
    return tpl.witness(m)


def split_level(tpl, ctx, n):
    """input position at which to cut paths for work distribution"""
    if n <= 2:
        return None
    return len(ctx.prefix) + max(1, n - 3)


def sample_census(job, npaths=80):
    """functions of the repository entered on the first `npaths` paths of `job`"""
    eng = E.ENG = job.make_engine()
    c = Census()
    k = 0
    with c:
        for _ in eng.explore(job.once):
            k += 1
            if k >= npaths:
                break
    E.ENG = None
    return c.seen
