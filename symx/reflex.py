"""reflex - reference reading of the C99 lexical grammar (ISO 9899:1999 6.4),
written from the standard, with pycparser's *documented* extensions as named
deltas.  It is data (one expression per lexical class, in the layered form of
6.4.4/6.4.5) evaluated on the same symbolic text as the implementation, in
"all end positions" mode (every length at which a class can end), so that the
longest well-formed prefix is known exactly.

Documented extensions (README / comments of c_lexer.py): binary integer
constants (0b...), '$' in identifiers, the u8/u/U prefixes, lenient
single-character escapes [a-zA-Z._~!=&^-\\?'"] and decimal escapes (digit
sequences) so that #line file names with Windows paths lex, __int128 /
offsetof / _Pragma keywords.  Digraphs and trigraphs are not supported by
pycparser and are not part of this reference.
"""
from __future__ import annotations

from .sremodel import ModelPattern
from .symtext import SymText, sym_get

# ---- 6.4.4.1 integer constants
_SUFFIX = r"(?:[uU](?:ll|LL|l|L)?|(?:ll|LL|l|L)[uU]?)?"
INT_DEC = r"[1-9][0-9]*" + _SUFFIX
INT_OCT = r"0[0-7]*" + _SUFFIX
INT_HEX = r"0[xX][0-9a-fA-F]+" + _SUFFIX
INT_BIN = r"0[bB][01]+" + _SUFFIX  # extension

# ---- 6.4.4.2 floating constants
_EXP = r"[eE][+-]?[0-9]+"
_FRAC = r"(?:[0-9]*\.[0-9]+|[0-9]+\.)"
FLOAT = r"(?:" + _FRAC + r"(?:" + _EXP + r")?|[0-9]+" + _EXP + r")[flFL]?"
_HEXFRAC = r"(?:[0-9a-fA-F]*\.[0-9a-fA-F]+|[0-9a-fA-F]+\.)"
HEXFLOAT = r"0[xX](?:" + _HEXFRAC + r"|[0-9a-fA-F]+)[pP][+-]?[0-9]+[flFL]?"

# ---- 6.4.4.4 character constants, 6.4.5 string literals
# escape sequences: simple, octal (generalised to decimal digit runs: documented), hexadecimal,
# plus the documented lenient single-character escapes
_ESC_CHAR = r"\\(?:[a-wyzA-Z._~!=&^\-\\?'\"]|x(?![0-9a-fA-F])|\d+(?!\d)|x[0-9a-fA-F]+(?![0-9a-fA-F]))"
_CCHAR = r"(?:[^'\\\n]|" + _ESC_CHAR + r")"
CHAR = r"'" + _CCHAR + r"'"
MULTICHAR = r"'" + _CCHAR + r"{2,4}'"  # implementation-defined multi-character constants, up to 4
# in strings an escape is a backslash followed by any character that can start an escape
_SCHAR = r"(?:[^\"\\\n]|\\[0-9a-zA-Z._~!=&^\-\\?'\"])"
STRING = r"\"" + _SCHAR + r"*\""
IDENT = r"[A-Za-z_$][A-Za-z0-9_$]*"  # '$' : extension
BAD_OCTAL = r"0[0-7]*[89]"

PREFIXES = {"": ("CHAR_CONST", "STRING_LITERAL"), "L": ("WCHAR_CONST", "WSTRING_LITERAL"), "u8": ("U8CHAR_CONST", "U8STRING_LITERAL"),
            "u": ("U16CHAR_CONST", "U16STRING_LITERAL"), "U": ("U32CHAR_CONST", "U32STRING_LITERAL")}

CLASSES = {
    "INT_CONST_DEC": INT_DEC,
    "INT_CONST_OCT": INT_OCT,
    "INT_CONST_HEX": INT_HEX,
    "INT_CONST_BIN": INT_BIN,
    "FLOAT_CONST": FLOAT,
    "HEX_FLOAT_CONST": HEXFLOAT,
    "INT_CONST_CHAR": MULTICHAR,
    "ID": IDENT,
}
for _p, (_c, _s) in PREFIXES.items():
    CLASSES[_c] = _p + CHAR
    CLASSES[_s] = _p + STRING

LITERAL_KINDS = set(CLASSES) - {"ID"}

# 6.4.1 keywords (C99) + supported C11 keywords + pycparser's extras
KEYWORDS = {}
for _k in ("auto break case char const continue default do double else enum extern float for goto if inline int long "
           "register restrict return short signed sizeof static struct switch typedef union unsigned void volatile while").split():
    KEYWORDS[_k] = _k.upper()
for _k in ("_Bool _Complex _Alignas _Alignof _Atomic _Noreturn _Static_assert _Thread_local _Pragma").split():
    KEYWORDS[_k] = _k.upper()
KEYWORDS["__int128"] = "__INT128"
KEYWORDS["offsetof"] = "OFFSETOF"

# 6.4.6 punctuators (digraphs, # and ## excluded)
PUNCT = {
    "[": "LBRACKET", "]": "RBRACKET", "(": "LPAREN", ")": "RPAREN", "{": "LBRACE", "}": "RBRACE", ".": "PERIOD", "->": "ARROW",
    "++": "PLUSPLUS", "--": "MINUSMINUS", "&": "AND", "*": "TIMES", "+": "PLUS", "-": "MINUS", "~": "NOT", "!": "LNOT",
    "/": "DIVIDE", "%": "MOD", "<<": "LSHIFT", ">>": "RSHIFT", "<": "LT", ">": "GT", "<=": "LE", ">=": "GE", "==": "EQ", "!=": "NE",
    "^": "XOR", "|": "OR", "&&": "LAND", "||": "LOR", "?": "CONDOP", ":": "COLON", ";": "SEMI", "...": "ELLIPSIS",
    "=": "EQUALS", "*=": "TIMESEQUAL", "/=": "DIVEQUAL", "%=": "MODEQUAL", "+=": "PLUSEQUAL", "-=": "MINUSEQUAL",
    "<<=": "LSHIFTEQUAL", ">>=": "RSHIFTEQUAL", "&=": "ANDEQUAL", "^=": "XOREQUAL", "|=": "OREQUAL", ",": "COMMA",
}
_PUNCT_BY_LEN = sorted(PUNCT, key=len, reverse=True)

_PATS = {}


def pat(name_or_regex):
    p = _PATS.get(name_or_regex)
    if p is None:
        p = _PATS[name_or_regex] = ModelPattern(CLASSES.get(name_or_regex, name_or_regex))
    return p


def longest_punct(text: SymText, pos=0):
    for lit in _PUNCT_BY_LEN:
        if text.startswith(lit, pos):
            return lit
    return None


def verdict(text: SymText, pos=0):
    """What a conforming lexer (with the documented extensions) must do at `pos`:
    ('token', type, end)  - the longest well-formed token starts here
    ('error',)            - a malformed literal family of the property's list / an illegal character
    """
    n = len(text)
    if pos >= n:
        return ("eof",)
    if text.startswith("/*", pos) or text.startswith("//", pos):
        return ("error", "comment")
    best = (-1, None)

    def consider(kind, ends):
        nonlocal best
        if ends:
            e = max(ends)
            if e > best[0]:
                best = (e, kind)

    if text.startswith("'", pos):
        consider("CHAR_CONST", pat("CHAR_CONST").all_ends(text, pos))
        consider("INT_CONST_CHAR", pat("INT_CONST_CHAR").all_ends(text, pos))
        if best[1] is None:
            return ("error", "bad character constant")
        return ("token", best[1], best[0], None)
    if text.startswith('"', pos):
        consider("STRING_LITERAL", pat("STRING_LITERAL").all_ends(text, pos))
        if best[1] is None:
            return ("error", "bad string literal")
        return ("token", best[1], best[0], None)
    # order matters only for ties (same end): octal before decimal for "0", none else can tie
    for kind in ("INT_CONST_OCT", "INT_CONST_DEC", "INT_CONST_HEX", "INT_CONST_BIN", "FLOAT_CONST", "HEX_FLOAT_CONST"):
        consider(kind, pat(kind).all_ends(text, pos))
    for prefix, (ck, sk) in PREFIXES.items():
        if prefix and text.startswith(prefix, pos):
            consider(ck, pat(ck).all_ends(text, pos))
            consider(sk, pat(sk).all_ends(text, pos))
    ident_ends = pat("ID").all_ends(text, pos)
    consider("ID", ident_ends)
    p = longest_punct(text, pos)
    if p is not None:
        consider("P:" + p, {pos + len(p)})
    bad = pat(BAD_OCTAL).all_ends(text, pos)
    if bad and max(bad) > best[0]:
        return ("error", "bad octal constant")
    if best[1] is None:
        return ("error", "illegal character")
    end, kind = best
    if kind == "ID":
        kw = sym_get(KEYWORDS, text[pos:end], None)
        kind = kw if kw is not None else "ID"
    elif kind.startswith("P:"):
        return ("token", PUNCT[kind[2:]], end, kind[2:])
    return ("token", kind, end, None)


# ---- typing of constants by spelling (6.4.4.1p5, 6.4.4.2p4, 6.4.4.4p10)
INT_SPLIT = ModelPattern(r"(?P<body>0[xX][0-9a-fA-F]+|0[bB][01]+|0[0-7]*|[1-9][0-9]*)(?P<suf>[uUlL]*)")


def int_type(text: SymText):
    """type name pycparser documents for an integer constant spelling"""
    m = INT_SPLIT.fullmatch(text)
    if m is None:
        return None
    suf = m.group("suf")
    u = 0
    l = 0
    for j in range(len(suf)):
        if suf[j].isin("uU"):
            u += 1
        else:
            l += 1
    return "unsigned " * u + "long " * l + "int"


def float_type(text: SymText):
    last = text[len(text) - 1]
    # hexadecimal floats end in a decimal exponent digit or a suffix; decimal floats may end in '.', digit or suffix
    if last.isin("fF") and not _is_hex_float_without_suffix(text):
        return "float"
    if last.isin("lL"):
        return "long double"
    return "double"


def _is_hex_float_without_suffix(text):
    return False  # a hex float always ends in the exponent's decimal digits or a suffix; 'f' after p<digits> is a suffix
