"""Runs under the repository's own interpreter (/venv/bin/python) against the
UNTOUCHED package: answers JSON requests on stdin, one JSON reply per line.
Used to replay solver counterexamples before anything is reported."""
import sys
import os
import json
import traceback
import io

REPO = os.environ.get("VERIF_REPO", "/repo")
sys.path.insert(0, REPO)

import pycparser  # noqa: E402
from pycparser import c_parser, c_lexer, c_ast, c_generator  # noqa: E402


def exc_sig(e):
    tb = traceback.extract_tb(e.__traceback__)
    fr = tb[-1]
    return {
        "type": type(e).__name__,
        "msg": str(e),
        "func": fr.name,
        "line": (fr.line or "").strip(),
        "file": os.path.basename(fr.filename),
    }


def ast_dump(node, coords=False):
    buf = io.StringIO()
    node.show(buf=buf, attrnames=True, nodenames=True, showcoord=coords)
    return buf.getvalue()


def structural(node):
    """nested tuple of class names, attributes and children (coords ignored)"""
    if node is None:
        return None
    if isinstance(node, list):
        return [structural(x) for x in node]
    if not isinstance(node, c_ast.Node):
        return repr(node)
    out = [type(node).__name__]
    for name in node.__slots__:
        if name in ("coord", "__weakref__"):
            continue
        out.append((name, structural(getattr(node, name))))
    return out


def do_parse(req):
    p = c_parser.CParser()
    try:
        ast = p.parse(req["text"], req.get("filename", "f.c"))
    except c_parser.ParseError as e:
        return {"outcome": "ParseError", "msg": str(e)}
    except RecursionError:
        return {"outcome": "RecursionError"}
    except Exception as e:
        return {"outcome": "exc", "exc": exc_sig(e)}
    out = {"outcome": "ast"}
    if req.get("dump"):
        out["dump"] = ast_dump(ast, coords=req.get("coords", False))
    if req.get("structural"):
        out["structural"] = structural(ast)
    return out


def do_lex(req):
    errs = []
    lx = c_lexer.CLexer(
        lambda m, l, c: errs.append([m, l, c]), lambda: None, lambda: None, lambda n: n in req.get("types", [])
    )
    lx.input(req["text"], req.get("filename", ""))
    toks = []
    try:
        for _ in range(req.get("max", 10000)):
            t = lx.token()
            if t is None:
                break
            toks.append([t.type, t.value, t.lineno, t.column])
    except Exception as e:
        return {"outcome": "exc", "exc": exc_sig(e), "tokens": toks, "errors": errs}
    return {"outcome": "ok", "tokens": toks, "errors": errs, "filename": lx.filename}


def do_roundtrip(req):
    p = c_parser.CParser()
    try:
        a1 = p.parse(req["text"], "f.c")
    except Exception as e:
        return {"outcome": "noparse", "exc": exc_sig(e)}
    res = {"outcome": "ok", "configs": {}}
    for rp in (False, True):
        r = {}
        try:
            g1 = c_generator.CGenerator(reduce_parentheses=rp).visit(a1)
        except Exception as e:
            r["gen_exc"] = exc_sig(e)
            res["configs"][str(rp)] = r
            continue
        r["g1"] = g1
        try:
            a2 = c_parser.CParser().parse(g1, "f.c")
        except Exception as e:
            r["reparse_exc"] = exc_sig(e)
            res["configs"][str(rp)] = r
            continue
        r["same_ast"] = structural(a1) == structural(a2)
        try:
            g2 = c_generator.CGenerator(reduce_parentheses=rp).visit(a2)
            r["same_text"] = g1 == g2
        except Exception as e:
            r["gen2_exc"] = exc_sig(e)
        res["configs"][str(rp)] = r
    return res


def _outcome(parser, text, filename):
    try:
        ast = parser.parse(text, filename)
    except c_parser.ParseError as e:
        return {"outcome": "ParseError", "msg": str(e)}, None
    except RecursionError:
        return {"outcome": "RecursionError"}, None
    except Exception as e:
        return {"outcome": "exc", "exc": exc_sig(e)}, None
    return {"outcome": "ast", "dump": ast_dump(ast, coords=True)}, ast


def _ids(node, acc):
    if node is None:
        return acc
    if isinstance(node, list):
        for x in node:
            _ids(x, acc)
        return acc
    if isinstance(node, c_ast.Node):
        acc.add(id(node))
        for name in node.__slots__:
            if name not in ("coord", "__weakref__"):
                _ids(getattr(node, name), acc)
    return acc


def do_history(req):
    """texts parsed one after the other on ONE parser instance; each also on a fresh instance"""
    p = c_parser.CParser()
    reused, fresh, keep = [], [], []
    shared = False
    for text, fn in req["texts"]:
        o, ast = _outcome(p, text, fn)
        if ast is not None:
            ids = _ids(ast, set())
            for prev in keep:
                if ids & prev[1]:
                    shared = True
            keep.append((ast, ids))
        reused.append(o)
        fresh.append(_outcome(c_parser.CParser(), text, fn)[0])
    return {"reused": reused, "fresh": fresh, "shared_nodes": shared}


OPS = {"parse": do_parse, "lex": do_lex, "roundtrip": do_roundtrip, "history": do_history}


def main():
    for line in sys.stdin:
        line = line.strip()
        if not line:
            continue
        req = json.loads(line)
        if req.get("op") == "quit":
            break
        try:
            if req["op"] == "exec":
                ns = {"__name__": "__replay__"}
                exec(compile(req["code"], "<replay>", "exec"), ns)
                rep = ns.get("RESULT")
            else:
                rep = OPS[req["op"]](req)
        except BaseException as e:  # noqa
            rep = {"outcome": "server-error", "err": repr(e), "tb": traceback.format_exc()}
        sys.stdout.write(json.dumps(rep) + "\n")
        sys.stdout.flush()


if __name__ == "__main__":
    main()
