"""Load pycparser modules from the repository's *current* source through a small
AST rewrite (in memory; nothing is written to the repository).

Only operators that Python does not let a proxy intercept are redirected:
  a in b / a not in b          -> __sym_in__(a, b)
  _TABLE[x] (module-level)     -> __sym_getitem__(_TABLE, x)
  _table.get(x[, d])           -> __sym_get__(_table, x, d)      (lexer)
  int(x)                       -> __sym_int__(x)                 (lexer)
  x is None / x is not None    -> __sym_isnone__(x)              (c_ast, C14 only)
Every helper falls through to the native operation on concrete operands.
"""
from __future__ import annotations

import ast
import os
import sys
import types

REPO = os.environ.get("VERIF_REPO", "/repo")
PKG = "pycparser"


class Rewriter(ast.NodeTransformer):
    def __init__(self, rewrite_in=True, tables=True, dict_get=False, int_call=False, is_none=False):
        self.rewrite_in = rewrite_in
        self.tables = tables
        self.dict_get = dict_get
        self.int_call = int_call
        self.is_none = is_none
        self.count = 0

    def visit_Compare(self, node):
        self.generic_visit(node)
        if len(node.ops) == 1:
            op = node.ops[0]
            if self.rewrite_in and isinstance(op, (ast.In, ast.NotIn)):
                self.count += 1
                call = ast.Call(ast.Name("__sym_in__", ast.Load()), [node.left, node.comparators[0]], [])
                return ast.UnaryOp(ast.Not(), call) if isinstance(op, ast.NotIn) else call
            if self.is_none and isinstance(op, (ast.Is, ast.IsNot)):
                c = node.comparators[0]
                if isinstance(c, ast.Constant) and c.value is None:
                    self.count += 1
                    call = ast.Call(ast.Name("__sym_isnone__", ast.Load()), [node.left], [])
                    return ast.UnaryOp(ast.Not(), call) if isinstance(op, ast.IsNot) else call
        return node

    def visit_Subscript(self, node):
        self.generic_visit(node)
        if (
            self.tables
            and isinstance(node.ctx, ast.Load)
            and isinstance(node.value, ast.Name)
            and node.value.id.startswith("_")
        ):
            self.count += 1
            return ast.Call(ast.Name("__sym_getitem__", ast.Load()), [node.value, node.slice], [])
        return node

    def visit_Call(self, node):
        self.generic_visit(node)
        f = node.func
        if (
            self.dict_get
            and isinstance(f, ast.Attribute)
            and f.attr == "get"
            and isinstance(f.value, ast.Name)
            and f.value.id.startswith("_")
            and not node.keywords
        ):
            self.count += 1
            return ast.Call(ast.Name("__sym_get__", ast.Load()), [f.value] + node.args, [])
        if self.int_call and isinstance(f, ast.Name) and f.id == "int" and len(node.args) == 1 and not node.keywords:
            self.count += 1
            return ast.Call(ast.Name("__sym_int__", ast.Load()), node.args, [])
        return node


def repo_path(*parts):
    return os.path.join(REPO, *parts)


def source_of(relpath):
    with open(repo_path(relpath), encoding="utf-8") as f:
        return f.read()


def load_module(modname, relpath, helpers, rewriter, package=PKG, register=True, pre_exec=None):
    """Compile `relpath` of the repository with `rewriter` applied and execute it
    as module `modname` (a private name under the pycparser package so that its
    relative imports resolve to modules we control)."""
    path = repo_path(relpath)
    tree = ast.parse(source_of(relpath), path)
    tree = ast.fix_missing_locations(rewriter.visit(tree))
    code = compile(tree, path, "exec")
    mod = types.ModuleType(modname)
    mod.__package__ = package
    mod.__file__ = path
    mod.__dict__.update(helpers)
    if pre_exec:
        pre_exec(mod)
    if register:
        sys.modules[modname] = mod
    exec(code, mod.__dict__)
    return mod


def ensure_repo_on_path():
    if sys.path[0] != REPO:
        if REPO in sys.path:
            sys.path.remove(REPO)
        sys.path.insert(0, REPO)
    # a stale import from another location would defeat "regenerated from /repo"
    m = sys.modules.get(PKG)
    if m is not None and not os.path.abspath(m.__file__).startswith(os.path.abspath(REPO) + os.sep):
        raise RuntimeError(f"pycparser already imported from {m.__file__}")


def native(name):
    """the untouched module pycparser.<name> imported from the repository"""
    ensure_repo_on_path()
    import importlib

    return importlib.import_module(f"{PKG}.{name}")
