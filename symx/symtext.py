"""symx-chr: symbolic text over code points c_0..c_{L-1} (z3 Int, 0..0x10FFFF)
with symbolic length, implementing exactly what c_lexer.py uses."""
from __future__ import annotations

import z3

from . import engine as E
from .engine import IntervalSet
from .proxies import SymInt, placeholder

MAXCP = 0x10FFFF
_ISET1 = {}


def iset_of_chars(chars):
    k = chars if isinstance(chars, str) else tuple(chars)
    r = _ISET1.get(k)
    if r is None:
        r = _ISET1[k] = IntervalSet([(ord(c), ord(c)) for c in chars])
    return r


class SymBase:
    """the whole symbolic input"""

    def __init__(self, maxlen, name="c", minlen=0, alphabet=None):
        self.maxlen = maxlen
        self.minlen = minlen
        self.name = name
        self.chars = [z3.Int(f"{name}{i}") for i in range(maxlen)]
        self.length = z3.Int(f"{name}len")
        self.alphabet = alphabet  # None = all of Unicode, else IntervalSet

    def declare(self, eng: E.Engine):
        for i, c in enumerate(self.chars):
            if self.alphabet is None:
                eng.declare_iv((self.name, i), c, 0, MAXCP)
            else:
                eng.base_dom[(self.name, i)] = self.alphabet
                eng.solver.add(eng.iv_expr((self.name, i), c, self.alphabet))
        eng.declare_fd((self.name, "len"), self.length, range(self.minlen, self.maxlen + 1))

    def concrete_len(self):
        eng = E.cur()
        d = eng.current_dom((self.name, "len"))
        if len(d) == 1:
            return next(iter(d))
        for n in sorted(d):
            if eng.decide_member((self.name, "len"), self.length, frozenset([n])):
                return n
        raise E.HarnessError("no length")

    def test(self, i, iset):
        """is code point i in the interval set?"""
        E.cur().at_input_position(i)
        return E.cur().decide_in((self.name, i), self.chars[i], iset)

    def witness(self, model, prefer=None):
        n = model.eval(self.length, model_completion=True).as_long()
        out = []
        for i in range(n):
            out.append(chr(model.eval(self.chars[i], model_completion=True).as_long()))
        return "".join(out)

    def witness_pretty(self, eng):
        """a witness that prefers printable ASCII inside each code point's current domain"""
        m = eng.model()
        if m is None:
            return None
        n = m.eval(self.length, model_completion=True).as_long()
        out = []
        for i in range(n):
            d = eng.current_dom((self.name, i))
            v = m.eval(self.chars[i], model_completion=True).as_long()
            out.append(v)
        return "".join(chr(v) for v in out)


class SymChar:
    __slots__ = ("base", "i")

    def __init__(self, base, i):
        self.base = base
        self.i = i

    def __eq__(self, o):
        if isinstance(o, str) and len(o) == 1:
            return self.base.test(self.i, iset_of_chars(o))
        if isinstance(o, SymChar):
            if o.base is self.base and o.i == self.i:
                return True
            return E.cur().decide(self.base.chars[self.i] == o.base.chars[o.i])
        return False

    def __ne__(self, o):
        return not self.__eq__(o)

    def __hash__(self):
        raise E.HarnessError("hash of a symbolic character")

    def isin(self, chars):
        if isinstance(chars, str):
            return self.base.test(self.i, iset_of_chars(chars))
        return self.base.test(self.i, iset_of_chars("".join(c for c in chars if isinstance(c, str) and len(c) == 1)))

    def __repr__(self):
        return "'" + placeholder("C", f"{self.base.name}{self.i}") + "'"

    def __str__(self):
        return placeholder("C", f"{self.base.name}{self.i}")

    def __format__(self, spec):
        return str(self)


class SymText:
    """text[start:stop] of a SymBase; stop=None means 'to the (symbolic) end'"""

    __slots__ = ("base", "start", "stop")

    def __init__(self, base, start=0, stop=None):
        self.base = base
        self.start = start
        self.stop = stop

    def _end(self):
        return self.stop if self.stop is not None else self.base.concrete_len()

    def __len__(self):
        return max(0, self._end() - self.start)

    def cp(self, i):
        """z3 term of the i-th code point of this text"""
        return self.base.chars[self.start + i]

    def test(self, i, iset):
        return self.base.test(self.start + i, iset)

    def __getitem__(self, x):
        n = len(self)
        if isinstance(x, slice):
            a, b, st = x.indices(n)
            if st != 1:
                raise E.HarnessError("SymText: extended slice")
            return SymText(self.base, self.start + a, self.start + max(a, b))
        if isinstance(x, SymInt):
            x = x.concretize()
        if x < 0:
            x += n
        if not 0 <= x < n:
            raise IndexError("string index out of range")
        return SymChar(self.base, self.start + x)

    def startswith(self, lit, pos=0):
        if isinstance(lit, tuple):
            return any(self.startswith(l, pos) for l in lit)
        n = len(self)
        if pos + len(lit) > n:
            return False
        for j, ch in enumerate(lit):
            if not self.test(pos + j, iset_of_chars(ch)):
                return False
        return True

    def find(self, sub, pos=0):
        if len(sub) != 1:
            raise E.HarnessError("SymText.find: only single characters")
        n = len(self)
        for j in range(pos, n):
            if self.test(j, iset_of_chars(sub)):
                return j
        return -1

    def __eq__(self, o):
        if isinstance(o, str):
            if len(o) != len(self):
                return False
            return all(self.test(j, iset_of_chars(c)) for j, c in enumerate(o))
        if isinstance(o, SymText):
            if o.base is self.base and o.start == self.start and len(o) == len(self):
                return True
            if len(o) != len(self):
                return False
            return all(E.cur().decide(self.cp(j) == o.cp(j)) for j in range(len(self)))
        return False

    def __ne__(self, o):
        return not self.__eq__(o)

    def __hash__(self):
        # constant: dictionaries keyed ONLY by symbolic texts (the parser's scope tables at character
        # level) then fall back on __eq__, which decides symbolically.  Module tables keyed by plain
        # strings are accessed through the rewritten helpers, never through this hash.
        return 7

    def lstrip(self, chars=None):
        if chars is None:
            raise E.HarnessError("SymText.lstrip() without argument")
        a, n = 0, len(self)
        while a < n and self.test(a, iset_of_chars(chars)):
            a += 1
        return self[a:]

    def rstrip(self, chars=None):
        b = len(self)
        while b > 0 and self.test(b - 1, _space_set() if chars is None else iset_of_chars(chars)):
            b -= 1
        return self[:b]

    def __iter__(self):
        for j in range(len(self)):
            yield SymChar(self.base, self.start + j)

    def __add__(self, o):
        return SymRope([self] + _pieces(o))

    def __radd__(self, o):
        return SymRope(_pieces(o) + [self])

    def partition(self, sep):
        j = self.find(sep)
        if j < 0:
            return self, "", ""
        return self[:j], self[j : j + 1], self[j + 1 :]

    def span(self):
        return (self.start, self.start + len(self))

    def __str__(self):
        a, b = self.start, self.stop
        return placeholder("S", f"{self.base.name}{a}:{'' if b is None else b}")

    __repr__ = __str__

    def __format__(self, spec):
        return str(self)

    def concrete(self, model):
        a, b = self.span()
        return "".join(chr(model.eval(self.base.chars[i], model_completion=True).as_long()) for i in range(a, b))


def sym_in(a, b):
    if isinstance(a, SymChar):
        if isinstance(b, str):
            return a.isin(b)
        return a.isin([x for x in b])
    from . import proxies

    return proxies.sym_in(a, b)


def sym_get(d, key, default=None):
    if isinstance(key, SymChar):
        for kk, v in d.items():
            if isinstance(kk, str) and len(kk) == 1 and key == kk:
                return v
        return default
    if isinstance(key, SymText):
        n = len(key)
        for kk, v in d.items():
            if isinstance(kk, str) and len(kk) == n and key == kk:
                return v
        return default
    from . import proxies

    return proxies.sym_get(d, key, default)


def sym_getitem(d, key):
    if isinstance(key, (SymChar, SymText)):
        miss = object()
        r = sym_get(d, key, miss)
        if r is miss:
            raise KeyError(key)
        return r
    from . import proxies

    return proxies.sym_getitem(d, key)


def _space_set():
    from .sremodel import category

    return category("CATEGORY_SPACE")


def _pieces(o):
    if isinstance(o, SymRope):
        return list(o.pieces)
    if isinstance(o, (str, SymText)):
        return [o]
    raise E.HarnessError(f"concatenation of symbolic text with {type(o).__name__}")


class SymRope:
    """concatenation of symbolic texts and plain strings (what the parser builds from adjacent string literals).
    Supports what the parser does with such a value: +, startswith, rstrip, slicing, len, formatting."""

    def __init__(self, pieces):
        self.pieces = [p for p in pieces if len(p) > 0]

    def __len__(self):
        return sum(len(p) for p in self.pieces)

    def __add__(self, o):
        return SymRope(self.pieces + _pieces(o))

    def __radd__(self, o):
        return SymRope(_pieces(o) + self.pieces)

    def startswith(self, lit, pos=0):
        if pos != 0 or isinstance(lit, tuple):
            raise E.HarnessError("SymRope.startswith: only a literal at position 0")
        if not lit:
            return True
        if not self.pieces or len(lit) > len(self.pieces[0]):
            if len(lit) > len(self):
                return False
            raise E.HarnessError("SymRope.startswith across pieces")
        return self.pieces[0].startswith(lit)

    def rstrip(self, chars=None):
        ps = list(self.pieces)
        while ps:
            last = ps[-1].rstrip(chars) if chars is not None or isinstance(ps[-1], SymText) else ps[-1].rstrip()
            if len(last) == len(ps[-1]):
                break
            ps[-1] = last
            if len(last) > 0:
                break
            ps.pop()
        return SymRope(ps)

    def __getitem__(self, x):
        if not isinstance(x, slice):
            raise E.HarnessError("SymRope: only slices")
        a, b, st = x.indices(len(self))
        if st != 1:
            raise E.HarnessError("SymRope: extended slice")
        out = []
        off = 0
        for p in self.pieces:
            lo, hi = max(a - off, 0), min(b - off, len(p))
            if lo < hi:
                out.append(p[lo:hi])
            off += len(p)
        return SymRope(out)

    def __eq__(self, o):
        if isinstance(o, SymRope):
            return self is o or (len(self.pieces) == len(o.pieces) and all(a is b for a, b in zip(self.pieces, o.pieces)))
        if isinstance(o, str):
            if len(o) != len(self):
                return False
            off = 0
            for p in self.pieces:
                if not (p == o[off : off + len(p)]):
                    return False
                off += len(p)
            return True
        return False

    def __ne__(self, o):
        return not self.__eq__(o)

    def __hash__(self):
        return 7

    def __str__(self):
        return "".join(str(p) for p in self.pieces)

    __repr__ = __str__

    def __format__(self, spec):
        return str(self)


_ND_BLOCKS = None


def nd_blocks():
    """start code points of the runs of ten Unicode decimal digits (category Nd) known to the running interpreter:
    int() accepts every one of them, with the digit's value"""
    global _ND_BLOCKS
    if _ND_BLOCKS is None:
        import sys
        import unicodedata

        out = []
        cp = 0
        while cp <= sys.maxunicode:
            ch = chr(cp)
            if unicodedata.category(ch) == "Nd" and unicodedata.digit(ch, None) == 0 and all(
                unicodedata.category(chr(cp + k)) == "Nd" and unicodedata.digit(chr(cp + k), None) == k for k in range(10) if cp + k <= sys.maxunicode
            ):
                out.append(cp)
                cp += 10
            else:
                cp += 1
        _ND_BLOCKS = out
    return _ND_BLOCKS


def sym_int(x):
    """int(text): strings of decimal digits - ASCII or any other Unicode decimal digit, as the real int() - become
    a z3 term; text containing a character int() rejects raises ValueError like the real int(); '_' separators and
    surrounding blanks are not modelled (HarnessError).  Decisions depend only on the text, never on a solver
    model, so replays are deterministic."""
    if isinstance(x, SymText):
        digits = IntervalSet([(48, 57)])
        n = len(x)
        if n == 0:
            raise ValueError("invalid literal for int() with base 10: ''")
        from .sremodel import category

        blocks = nd_blocks()
        other_digits = IntervalSet([(b0, b0 + 9) for b0 in blocks if b0 != 48])
        special = iset_of_chars("_") | category("CATEGORY_SPACE")
        ascii_only = True
        for j in range(n):
            if x.test(j, digits):
                continue
            if x.test(j, other_digits):
                ascii_only = False
                continue
            if x.test(j, special):
                raise E.HarnessError("int() of text with '_' or blanks is not modelled")
            raise ValueError("invalid literal for int() with base 10")
        eng = E.cur()
        doms = [eng.current_dom((x.base.name, x.start + j)) for j in range(n)]
        if all(d.size() == 1 for d in doms):
            return int("".join(chr(d.min()) for d in doms))

        def value(cp):
            if ascii_only:
                return cp - 48
            v = cp - 48
            for b0 in blocks:
                if b0 != 48:
                    v = z3.If(z3.And(cp >= b0, cp <= b0 + 9), cp - b0, v)
            return v

        e = z3.IntVal(0)
        for j in range(n):
            e = e * 10 + value(x.cp(j))
        return SymInt(e)
    return int(x)
