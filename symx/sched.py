"""Symbolic scheduler: several tasks (parses, generator runs) executed in an
interleaved fashion; exactly one task runs at a time and control changes only
at *switch points* (a token request, a visit() call).  Whether control changes
at a switch point is a symbolic Bool decided through the engine, so every
schedule within the bound is a path.  Tasks run in threads with strict
hand-off (the scheduler is the only synchronisation)."""
from __future__ import annotations

import threading

import z3

from . import engine as E


class _Task:
    def __init__(self, idx, fn):
        self.idx = idx
        self.fn = fn
        self.result = None
        self.exc = None
        self.done = False
        self.started = False
        self.go = threading.Semaphore(0)
        self.thread = None


class Scheduler:
    """run(fns) executes the callables under a symbolic schedule and returns their results.
    Each fn receives a `yield_point()` callable to call at its switch points."""

    def __init__(self, max_switches, name="s"):
        self.max_switches = max_switches
        self.name = name
        self.tasks = []
        self.cur = None
        self.switches = 0
        self.step = 0
        self.trace = []
        self.fatal = None

    # -- called from inside a task at a switch point
    def yield_point(self, me):
        if self.fatal is not None:
            raise self.fatal
        others = [t for t in self.tasks if t is not me and not t.done]
        if not others or self.switches >= self.max_switches:
            return
        eng = E.cur()
        for o in others:
            b = z3.Bool(f"{self.name}_{self.step}_{me.idx}to{o.idx}")
            self.step += 1
            if eng.decide(b):
                self.switches += 1
                self.trace.append((me.idx, o.idx))
                self._transfer(me, o)
                if self.fatal is not None:
                    raise self.fatal
                return

    def _transfer(self, me, o):
        self.cur = o
        if not o.started:
            o.started = True
            o.thread.start()
        else:
            o.go.release()
        me.go.acquire()  # wait until someone hands control back
        self.cur = me

    def _body(self, t):
        try:
            t.result = t.fn(lambda: self.yield_point(t))
        except E.Abort as a:
            self.fatal = a
        except BaseException as e:  # noqa
            t.exc = e
        t.done = True
        # hand control to a task that is waiting (prefer the one that started us: lowest idx waiting)
        self._handoff_after_finish(t)

    def _handoff_after_finish(self, t):
        waiting = [o for o in self.tasks if o is not t and o.started and not o.done]
        if waiting:
            nxt = waiting[0]
            self.cur = nxt
            nxt.go.release()
        else:
            self.main_done.release()

    def run(self, fns):
        self.tasks = [_Task(i, f) for i, f in enumerate(fns)]
        self.main_done = threading.Semaphore(0)
        for t in self.tasks:
            t.thread = threading.Thread(target=self._body, args=(t,), daemon=True)
        # tasks are started in order; a task that finishes hands over to a waiting one;
        # tasks never started by a switch are started after the others are done
        for t in self.tasks:
            if not t.started:
                t.started = True
                self.cur = t
                t.thread.start()
                self.main_done.acquire()
        for t in self.tasks:
            t.thread.join(timeout=10)
        if self.fatal is not None:
            raise self.fatal
        for t in self.tasks:
            if not t.done:
                raise E.HarnessError("scheduler: task did not finish")
        return [(t.result, t.exc) for t in self.tasks]
