"""Common driver of the differential checks (C01, C02, C03, C05): contexts with
holes, product execution of the real parser and refc, replay of witnesses."""
from __future__ import annotations

from . import engine as E
from . import toklex, symparser, checklib, tokharness, diffharness as D


def run(pid, contexts, want, report, findings, alphabet=None, extra_path_hook=None, parallel_from=3):
    """contexts: list of (Ctx, max_holes).  want: subset of {'tree','accept'}.
    Returns candidates dict sig -> [violation]."""
    P = symparser.load()
    nval = checklib.validate_parser_translation(P)
    report.notes.append(f"translator validation: {nval} repository test inputs, rewritten parser == untouched parser")
    c, r, bad = D.validate_reference_on_repo_inputs()
    report.notes.append(
        f"reference validation: refc+interp agree with the untouched parser's AST on {c - len(bad)} of {c} repository test inputs that both accept "
        f"({r} are not strict C99 and carry no claim); disagreements: {bad}"
    )
    if c < 100 or len(bad) > max(6, c // 20):
        raise E.HarnessError(f"reference validation failed: {len(bad)} disagreements on {c} inputs: {bad[:3]}")
    alpha = alphabet or toklex.full_alphabet()
    cands = {}

    def path_fn(Lex, tpl):
        rec, impl, ref = D.differential_path(P, Lex, tpl, want)
        if extra_path_hook is not None:
            extra_path_hook(rec, impl, ref, tpl)
        rec.pop("impl", None)
        return rec

    bounds = {c.name: n for c, n in contexts}
    report.bounds["contexts"] = {
        c.name: ({"pattern": " ".join(c.prefix + c.pattern + c.suffix), "hole_classes": {k: list(v) for k, v in c.classes.items()}} if hasattr(c, "pattern") else
                 {"template": " ".join(c.prefix) + " <holes> " + " ".join(c.suffix), "max_holes": n, "hole_alphabet": "full" if c.domain is None else list(c.domain)}) for c, n in contexts
    }
    cands = tokharness.run_contexts(report, alpha, [c for c, _ in contexts], lambda c: bounds[c.name], path_fn, parallel_from=parallel_from, job_kw={"max_viol": 60})
    return alpha, cands


def settle(pid, alpha, cands, report, findings, kinds):
    """replay candidates on the untouched package; file violations / known findings"""
    for sig, vs in sorted(cands.items()):
        vs.sort(key=lambda v: (len(v["toks"]), str(v["toks"])))
        good = None
        detail = None
        for v in vs[:4]:
            report.replayed += 1
            kind, repro, text, detail = D.replay_tree(alpha, v["toks"])
            v["text"] = text
            if v["kind"] == "rejected-valid":
                ok = kind == "rejected" and repro
            elif v["kind"] == "interp":
                ok = kind == "interp"
            else:
                ok = kind in ("tree", "interp") and repro
            if ok:
                good = v
                good["detail"] = detail
                break
        if good is None:
            report.unreproduced.append({"sig": sig, "text": vs[0].get("text"), "what": vs[0]["what"], "replay": str(detail)[:200]})
            continue
        what = f"[{sig}] {good['what']} -- input {good['text']!r} ({len(vs)} path classes)"
        kf = findings.match(sig, good["text"])
        if kf:
            report.known_hits[kf.get('id', sig)] = f"{kf['what']} [e.g. {good['text'].strip()!r}]"
            continue
        report.violations.append({"sig": sig, "what": what, "replay": checklib.write_replay(pid, what, replay_body(good), interpreter="python3-vt")})


def replay_body(v):
    toks = v["toks"]
    return (
        "sys.path.insert(0, '/verif')\n"
        "from symx import toklex, diffharness as D\n"
        f"toks = {toks!r}\n"
        "toks = [tuple(t) for t in toks]\n"
        "alpha = toklex.Alphabet(sorted(set(toks)))\n"
        "kind, repro, text, detail = D.replay_tree(alpha, toks)\n"
        "print('input :', repr(text)); print('result:', kind, detail)\n"
        "sys.exit(1 if repro else 0)\n"
    )
