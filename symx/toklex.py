"""symx-tok: symbolic token streams injected through CParser(lexer=...).

Alphabet  - generated from the live lexer tables (keywords, punctuators) plus
            literal / identifier symbols with fixed spellings.
Template  - list of positions: fixed symbol, or hole with a domain.
TokLexer  - the lexer class handed to the real CParser; serves tokens whose
            type/value are SymStr proxies over k_i, honouring the callback
            protocol of CLexer (brace callbacks at lex time, type lookup for
            IDENT symbols, filename property).
"""
from __future__ import annotations

import z3

from . import engine as E
from .proxies import SymStr, SymInt, FileTag
from . import loader


class Alphabet:
    def __init__(self, syms):
        # sym: (type, spelling)  type 'IDENT' = classified by the real callback
        # the last symbol is EPS: "no token here" - the harness lexer skips such a position; it pads the
        # alternatives of a multi-token hole class (tokharness.PatCtx) to a common length.  len(alphabet) excludes it.
        self.syms = list(syms) + [("EPS", "")]
        self.eps = len(self.syms) - 1
        self.index = {}
        for j, s in enumerate(self.syms):
            self.index.setdefault(self.name_of(j), j)
        self.types = {j: t for j, (t, v) in enumerate(self.syms)}
        self.values = {j: v for j, (t, v) in enumerate(self.syms)}
        self.ident = frozenset(j for j, (t, v) in enumerate(self.syms) if t == "IDENT")
        self.lbrace = frozenset(j for j, (t, v) in enumerate(self.syms) if t == "LBRACE")
        self.rbrace = frozenset(j for j, (t, v) in enumerate(self.syms) if t == "RBRACE")

    def name_of(self, j):
        t, v = self.syms[j]
        return v if t not in ("ID", "TYPEID", "IDENT", "PPPRAGMA", "PPPRAGMASTR", "PPHASH") else f"{t}:{v}"

    def idx(self, name):
        """symbol by spelling (`int`, `(`) or `TYPE:spelling` for identifiers"""
        if name in self.index:
            return self.index[name]
        # bare identifier spelling
        for j, (t, v) in enumerate(self.syms):
            if v == name:
                return j
        raise KeyError(name)

    def of_types(self, types):
        return frozenset(j for j, (t, v) in enumerate(self.syms) if t in types)

    def __len__(self):
        return len(self.syms) - 1


LITERALS = [
    ("INT_CONST_DEC", "1"),
    ("INT_CONST_DEC", "2u"),
    ("INT_CONST_DEC", "3l"),
    ("INT_CONST_DEC", "4ul"),
    ("INT_CONST_DEC", "5ull"),
    ("INT_CONST_DEC", "6LLU"),
    ("INT_CONST_DEC", "7lu"),
    ("INT_CONST_HEX", "0x1F"),
    ("INT_CONST_HEX", "0xFuL"),
    ("INT_CONST_BIN", "0b1"),
    ("INT_CONST_OCT", "07"),
    ("INT_CONST_OCT", "0"),
    ("INT_CONST_CHAR", "'ab'"),
    ("INT_CONST_CHAR", "'uuu'"),
    ("INT_CONST_CHAR", "'ll'"),
    ("INT_CONST_CHAR", "'lll'"),
    ("FLOAT_CONST", "1.0"),
    ("FLOAT_CONST", "1.0f"),
    ("FLOAT_CONST", "1.0L"),
    ("FLOAT_CONST", "2e3F"),
    ("HEX_FLOAT_CONST", "0x1p0"),
    ("HEX_FLOAT_CONST", "0x1p0l"),
    ("CHAR_CONST", "'c'"),
    ("CHAR_CONST", "'\\''"),
    ("CHAR_CONST", "'}'"),
    ("WCHAR_CONST", "L'c'"),
    ("U8CHAR_CONST", "u8'c'"),
    ("U16CHAR_CONST", "u'c'"),
    ("U32CHAR_CONST", "U'c'"),
    ("STRING_LITERAL", '"s"'),
    ("STRING_LITERAL", '"a\\"b\\\\"'),
    ("STRING_LITERAL", '"é"'),
    ("STRING_LITERAL", '"{0}%s{"'),
    ("WSTRING_LITERAL", 'L"w"'),
    ("U8STRING_LITERAL", 'u8"s"'),
    ("U16STRING_LITERAL", 'u"s"'),
    ("U32STRING_LITERAL", 'U"s"'),
]

PP = [("PPHASH", "#"), ("PPPRAGMA", "pragma"), ("PPPRAGMASTR", "pack(1)")]


def full_alphabet(idents=("IDENT:x", "IDENT:y", "IDENT:T"), literals=None, pp=True):
    lex = loader.native("c_lexer")
    syms = []
    for spelling, t in lex._keyword_map.items():
        syms.append((t, spelling))
    for ft in lex._fixed_tokens:
        syms.append((ft.tok_type, ft.literal))
    for ident in idents:
        t, v = ident.split(":")
        syms.append((t, v))
    syms += list(LITERALS if literals is None else literals)
    if pp:
        syms += PP
    return Alphabet(syms)


class Template:
    """positions: list of either a symbol name (fixed) or a set/list of symbol
    names / None (= whole alphabet) for a hole."""

    def __init__(self, alpha: Alphabet, positions, name="", var="k"):
        self.alpha = alpha
        self.name = name
        self.var = var
        self.doms = []
        self.fixed = []
        self.alias = {}
        self.extra = []  # z3 constraints linking positions (multi-token hole classes)
        for pi, p in enumerate(positions):
            if isinstance(p, tuple) and len(p) == 2 and p[0] == "=":
                # same variable as an earlier position
                self.alias[pi] = p[1]
                self.doms.append(self.doms[p[1]])
                self.fixed.append(False)
                continue
            if isinstance(p, str):
                j = alpha.idx(p)
                self.doms.append(frozenset([j]))
                self.fixed.append(True)
            else:
                if p is None:
                    d = frozenset(range(len(alpha)))
                else:
                    d = frozenset(alpha.idx(s) if isinstance(s, str) else s for s in p)
                self.doms.append(d)
                self.fixed.append(False)
        self.n = len(self.doms)
        self.kvars = [z3.Int(f"{var}{self.alias.get(i, i)}") for i in range(self.n)]
        self.lines = [z3.Int(f"{var}line{i}") for i in range(self.n)]
        self.cols = [z3.Int(f"{var}col{i}") for i in range(self.n)]

    def declare(self, eng: E.Engine, coords=False):
        for i in range(self.n):
            if i in self.alias:
                continue
            eng.declare_fd((self.var, i), self.kvars[i], self.doms[i])
        if self.extra:
            eng.solver.add(*self.extra)
        for i in range(self.n):
            if i in self.alias:
                continue
            if coords:
                # any layout: lines and columns are free positive integers (bounded only so that witnesses can be rendered)
                eng.solver.add(self.lines[i] >= 1, self.lines[i] <= 5000, self.cols[i] >= 1, self.cols[i] <= 60)

    def coords_witness(self, model):
        return [(model.eval(self.lines[i], model_completion=True).as_long(), model.eval(self.cols[i], model_completion=True).as_long()) for i in range(self.n)]

    def describe(self):
        out = []
        for i in range(self.n):
            if self.fixed[i]:
                out.append(self.alpha.name_of(next(iter(self.doms[i]))))
            else:
                out.append(f"<hole:{len(self.doms[i])}>")
        return " ".join(out)

    def witness(self, model):
        """concrete symbol list from a z3 model"""
        toks = []
        for i in range(self.n):
            j = model.eval(self.kvars[i], model_completion=True).as_long()
            toks.append(self.alpha.syms[j])
        return toks

    def witness_from_dom(self, eng):
        toks = []
        for i in range(self.n):
            j = min(eng.current_dom((self.var, i)))
            toks.append(self.alpha.syms[j])
        return toks


def render(toks):
    """token list [(type, spelling)] -> source text accepted by the real lexer
    with the same token sequence: single spaces, pragma lines on their own line."""
    out = []
    i = 0
    line = []
    while i < len(toks):
        t, v = toks[i]
        if t == "EPS":
            i += 1
            continue
        if t == "PPPRAGMA":
            if line:
                out.append(" ".join(line))
                line = []
            s = "#pragma"
            if i + 1 < len(toks) and toks[i + 1][0] == "PPPRAGMASTR":
                s += " " + toks[i + 1][1]
                i += 1
            out.append(s)
        elif t == "PPPRAGMASTR":
            # cannot occur without PPPRAGMA in real text; render as a pragma line
            if line:
                out.append(" ".join(line))
                line = []
            out.append("#pragma " + v)
        elif t == "PPHASH":
            if line:
                out.append(" ".join(line))
                line = []
            line.append("#")
        else:
            line.append(v)
        i += 1
    if line:
        out.append(" ".join(line))
    return "\n".join(out) + ("\n" if out else "")


class IdxStr(str):
    """spelling of a fixed template position; remembers which token it came from"""

    def __new__(cls, v, i):
        o = str.__new__(cls, v)
        o.tok_index = i
        return o

    def __deepcopy__(self, memo):
        return self


class Token:
    """same attribute protocol as c_lexer.Token"""

    __slots__ = ("type", "value", "lineno", "column", "index")

    def __init__(self, type, value, lineno, column, index):
        self.type = type
        self.value = value
        self.lineno = lineno
        self.column = column
        self.index = index

    def __repr__(self):
        return f"Token#{self.index}({self.type!s},{self.value!s})"


_TOKCLS = None


def _native_token_class():
    global _TOKCLS
    if _TOKCLS is None:
        _TOKCLS = loader.native("c_lexer").Token
    return _TOKCLS


class TokLexerBase:
    """Lexer protocol over a Template.  Subclass per exploration sets TEMPLATE /
    SYM_COORDS / TRACK."""

    TEMPLATE: Template = None
    SYM_COORDS = False
    FILE_TAGS = False
    START = 0
    END = None

    def __init__(self, error_func, on_lbrace_func, on_rbrace_func, type_lookup_func):
        self.error_func = error_func
        self.on_lbrace_func = on_lbrace_func
        self.on_rbrace_func = on_rbrace_func
        self.type_lookup_func = type_lookup_func
        self.i = 0
        self._filename = ""
        self.template = self.TEMPLATE
        self.handed = []  # tokens handed out so far
        self.last_index = -1
        self.classified = []  # (index, name, is_type) for IDENT symbols

    def input(self, text, filename=""):
        self.i = self.START
        self._filename = filename
        self.handed = []
        self.classified = []
        if isinstance(text, Template):
            self.template = text

    @property
    def filename(self):
        if self.FILE_TAGS and self.handed:
            return FileTag(self.last_index)
        return self._filename

    def token(self):
        tpl = self.template
        alpha = tpl.alpha
        eng = E.cur()
        while True:
            i = self.i
            if i >= (tpl.n if self.END is None else self.END):
                return None
            self.i = i + 1
            eng.at_input_position(i)
            key = (tpl.var, tpl.alias.get(i, i))
            var = tpl.kvars[i]
            if alpha.eps in tpl.doms[i] and (len(tpl.doms[i]) == 1 or eng.decide_member(key, var, frozenset([alpha.eps]))):
                continue  # no token at this position
            break
        if self.SYM_COORDS:
            line = SymInt(tpl.lines[i], tag=f"{tpl.var}line{i}")
            col = SymInt(tpl.cols[i], tag=f"{tpl.var}col{i}")
        else:
            line, col = 1, i + 1
        dom = tpl.doms[i]
        if len(dom) == 1:
            (j,) = dom
            ttype, tval = alpha.syms[j]
            if self.SYM_COORDS:
                tval = IdxStr(tval, i)
        else:
            ns = "" if tpl.var == "k" else tpl.var
            ttype = SymStr("T" + ns, i, key, var, alpha.types)
            tval = SymStr("V" + ns, i, key, var, alpha.values)
            j = None
        # identifiers classified by the real callback
        if alpha.ident and (j in alpha.ident if j is not None else (dom & alpha.ident and eng.decide_member(key, var, alpha.ident))):
            name = tval.concretize() if isinstance(tval, SymStr) else tval
            is_type = self.type_lookup_func(name)
            ttype = "TYPEID" if is_type else "ID"
            tval = IdxStr(name, i) if self.SYM_COORDS else name
            self.classified.append((i, name, bool(is_type)))
        # the repository's own Token class (a dataclass: '==' compares its four fields)
        tok = _native_token_class()(ttype, tval, line, col)
        self.handed.append(tok)
        self.last_index = i
        if ttype == "LBRACE":
            self.on_lbrace_func()
        elif ttype == "RBRACE":
            self.on_rbrace_func()
        return tok


def make_lexer_class(template, sym_coords=False, file_tags=False, start=0, end=None):
    return type(
        "TokLexer",
        (TokLexerBase,),
        {"TEMPLATE": template, "SYM_COORDS": sym_coords, "FILE_TAGS": file_tags, "START": start, "END": end},
    )
