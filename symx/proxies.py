"""Proxy values handed to the real code.

SymStr  - a string-valued function of one finite-domain variable (token kind
          k_i): used both for token *types* and token *spellings*.  It is a
          real `str` subclass whose buffer is a placeholder, so formatting,
          join, concatenation by C code carry the placeholder along; equality
          is decided symbolically; every content-inspecting method first
          concretises by a solver case split.
SymInt  - integer z3 term (coordinates, precedences, lexer counters).
FileTag - the lexer's "current file name" while token i is the last one lexed.
"""
from __future__ import annotations

import z3

from . import engine as E

PH_OPEN, PH_CLOSE = "\x01", "\x02"


def placeholder(kind, i):
    return f"{PH_OPEN}{kind}{i}{PH_CLOSE}"


_INV = {}


class SymStr(str):
    """str-valued function of finite-domain variable (key, var): table[idx] -> str"""

    def __new__(cls, kind, i, key, var, table):
        o = str.__new__(cls, placeholder(kind, i))
        o.kind = kind  # 'T' type, 'V' value
        o.i = i
        o.key = key
        o.var = var
        o.table = table  # dict idx -> str  (whole alphabet)
        o.conc = None
        o._inv = None
        return o

    # -- helpers
    def _idxs_for(self, s):
        inv = self._inv
        if inv is None:
            inv = _INV.get(id(self.table))
            if inv is None:
                inv = {}
                for j, v in self.table.items():
                    inv.setdefault(v, set()).add(j)
                inv = {v: frozenset(js) for v, js in inv.items()}
                _INV[id(self.table)] = (inv, self.table)
            else:
                inv = inv[0]
            self._inv = inv
        return inv.get(s)

    def concretize(self):
        if self.conc is None:
            eng = E.cur()
            dom = eng.current_dom(self.key)
            cands = {}
            for j in sorted(dom):
                cands.setdefault(self.table[j], []).append(j)
            items = list(cands.items())
            for v, js in items[:-1]:
                if eng.decide_member(self.key, self.var, frozenset(self._idxs_for(v))):
                    self.conc = v
                    break
            else:
                v = items[-1][0]
                # the remaining alternative must hold
                if not eng.decide_member(self.key, self.var, frozenset(self._idxs_for(v))):
                    raise E.HarnessError("SymStr: no spelling left")
                self.conc = v
        return self.conc

    def possible(self):
        eng = E.cur()
        if self.conc is not None:
            return {self.conc}
        return {self.table[j] for j in eng.current_dom(self.key)}

    # -- symbolic equality
    def __eq__(self, o):
        if o is self:
            return True
        if isinstance(o, SymStr):
            if o.key == self.key and o.kind == self.kind:
                return True
            return self.concretize() == o.concretize()
        if isinstance(o, str):
            if self.conc is not None:
                return self.conc == o
            idxs = self._idxs_for(o)
            if not idxs:
                return False
            r = E.cur().decide_member(self.key, self.var, idxs)
            return r
        return False

    def __ne__(self, o):
        return not self.__eq__(o)

    def __hash__(self):
        return hash(self.concretize())

    def isin(self, coll):
        """membership in a collection of constant strings, one decision"""
        if self.conc is not None:
            return self.conc in coll
        idxs = set()
        for s in coll:
            if isinstance(s, SymStr):
                if s == self:
                    return True
                continue
            if isinstance(s, str):
                js = self._idxs_for(s)
                if js:
                    idxs |= js
        if not idxs:
            return False
        return E.cur().decide_member(self.key, self.var, frozenset(idxs))

    # -- presentation: never forks
    def __str__(self):
        return self.conc if self.conc is not None else str.__str__(self)

    def __format__(self, spec):
        return format(self.__str__(), spec)

    def __repr__(self):
        return "'" + self.__str__() + "'"

    def raw(self):
        """the placeholder text"""
        return str.__str__(self)

    def __reduce__(self):
        return (str, (self.__str__(),))

    def __deepcopy__(self, memo):
        return self

    def __copy__(self):
        return self


_PASS = {
    "__new__", "__init__", "__class__", "__getattribute__", "__setattr__", "__delattr__", "__dir__",
    "__doc__", "__init_subclass__", "__subclasshook__", "__reduce__", "__reduce_ex__", "__sizeof__",
    "__getnewargs__", "__eq__", "__ne__", "__hash__", "__str__", "__format__", "__repr__",
    "__getstate__", "__class_getitem__",
}


def _wrap(name):
    def m(self, *a, **kw):
        a = tuple(x.concretize() if isinstance(x, SymStr) else x for x in a)
        return getattr(self.concretize(), name)(*a, **kw)

    m.__name__ = name
    return m


for _n in dir(str):
    if _n in _PASS:
        continue
    if callable(getattr(str, _n)):
        setattr(SymStr, _n, _wrap(_n))


def _radd(self, o):
    return o + self.concretize()


SymStr.__radd__ = _radd


class FileTag(str):
    """lexer.filename while token `i` is the most recently lexed one."""

    def __new__(cls, i):
        o = str.__new__(cls, placeholder("F", i))
        o.i = i
        return o

    def __deepcopy__(self, memo):
        return self

    def __bool__(self):
        # a file name can be the empty string (parse(text) without a name, '# 1 ""'): code that tests a file name's
        # truthiness forks here.  At most one tag is empty on a path (one z3 Int names it), so that a witness can be laid out.
        return not E.cur().decide(z3.Int("fempty_idx") == self.i)


# ---------------------------------------------------------------------------
class SymInt:
    """integer-valued z3 term.  `unary`=(key, var, {idx: value}) when it is a
    function of one finite-domain variable (lets comparisons with constants use
    the finite-domain cache).  `tag` marks coordinates (must never be branched on)."""

    __slots__ = ("e", "unary", "tag")

    def __init__(self, e, unary=None, tag=None):
        self.e = e
        self.unary = unary
        self.tag = tag

    @staticmethod
    def _o(o):
        return o.e if isinstance(o, SymInt) else o

    def _cmp(self, o, op, pyop):
        eng = E.cur()
        if self.tag or (isinstance(o, SymInt) and o.tag):
            eng.tainted_decisions += 1
            eng.path_notes.append(("coord-branch", self.tag or o.tag))
        if self.unary is not None and isinstance(o, int) and not isinstance(o, bool):
            key, var, tab = self.unary
            idxs = frozenset(j for j, v in tab.items() if pyop(v, o))
            if not idxs:
                return False
            return eng.decide_member(key, var, idxs)
        if isinstance(o, (int, SymInt)):
            return eng.decide(op(self.e, self._o(o)))
        return NotImplemented

    def __lt__(self, o):
        return self._cmp(o, lambda a, b: a < b, lambda a, b: a < b)

    def __le__(self, o):
        return self._cmp(o, lambda a, b: a <= b, lambda a, b: a <= b)

    def __gt__(self, o):
        return self._cmp(o, lambda a, b: a > b, lambda a, b: a > b)

    def __ge__(self, o):
        return self._cmp(o, lambda a, b: a >= b, lambda a, b: a >= b)

    def __eq__(self, o):
        if o is self:
            return True
        r = self._cmp(o, lambda a, b: a == b, lambda a, b: a == b)
        return False if r is NotImplemented else r

    def __ne__(self, o):
        r = self.__eq__(o)
        return not r

    def __hash__(self):
        # Hashing a symbolic integer (a coordinate used as part of a dictionary key): a constant hash is
        # always consistent, and the equality test that follows a hash hit is decided symbolically.
        eng = E.cur()
        if self.tag and eng is not None:
            eng.tainted_decisions += 1
            eng.path_notes.append(("coord-hash", self.tag))
        return 0

    def __bool__(self):
        return self.__ne__(0)

    def concretize(self):
        """fork on the value; only for functions of one finite-domain variable
        (candidate values are enumerated in a fixed order, so replays are deterministic)"""
        eng = E.cur()
        if self.tag:
            eng.tainted_decisions += 1
            eng.path_notes.append(("coord-concretize", self.tag))
        if self.unary is None:
            raise E.HarnessError("the code needs the concrete value of a symbolic integer (index/hash/int()): not modelled")
        key, var, tab = self.unary
        for v in sorted(set(tab.values())):
            idxs = frozenset(j for j, w in tab.items() if w == v)
            if eng.decide_member(key, var, idxs):
                return v
        raise E.HarnessError("SymInt.concretize: no value")

    def __index__(self):
        return self.concretize()

    def __int__(self):
        return self.concretize()

    def __add__(self, o):
        return SymInt(self.e + self._o(o), tag=self.tag or getattr(o, "tag", None))

    __radd__ = __add__

    def __sub__(self, o):
        return SymInt(self.e - self._o(o), tag=self.tag or getattr(o, "tag", None))

    def __rsub__(self, o):
        return SymInt(self._o(o) - self.e, tag=self.tag)

    def __mul__(self, o):
        return SymInt(self.e * self._o(o), tag=self.tag)

    __rmul__ = __mul__

    def __neg__(self):
        return SymInt(-self.e, tag=self.tag)

    def __str__(self):
        return placeholder("I", self.tag if self.tag else "?")

    __repr__ = __str__

    def __format__(self, spec):
        return self.__str__()

    def __deepcopy__(self, memo):
        return self

    def __reduce__(self):
        return (str, (self.__str__(),))


# ---------------------------------------------------------------------------
# helpers injected into rewritten modules
# ---------------------------------------------------------------------------
def sym_in(a, b):
    if not isinstance(a, str) and hasattr(a, "isin") and isinstance(b, (str, tuple, list, set, frozenset)):
        return a.isin(b)  # symbolic character (symtext.SymChar)
    if isinstance(a, SymStr) and a.conc is None and isinstance(b, (set, frozenset, tuple, list, dict)):
        if isinstance(b, dict):
            b = list(b.keys())
        return a.isin(b)
    if isinstance(a, str) and not isinstance(a, SymStr) and isinstance(b, (list, tuple)):
        for x in b:
            if x == a:  # SymStr.__eq__ decides
                return True
        return False
    return a in b


def sym_getitem(d, k):
    if isinstance(k, SymStr) and k.conc is None and isinstance(d, dict):
        keys = [s for s in d if isinstance(s, str)]
        if not k.isin(keys):
            raise KeyError(k)
        vals = {s: d[s] for s in keys}
        if all(isinstance(v, int) and not isinstance(v, bool) for v in vals.values()):
            tab = {}
            eng = E.cur()
            for j in eng.current_dom(k.key):
                tab[j] = vals[k.table[j]]
            distinct = sorted(set(tab.values()))
            e = z3.IntVal(distinct[-1])
            for v in distinct[:-1]:
                e = z3.If(eng.member_expr(k.key, k.var, frozenset(j for j, w in tab.items() if w == v)), v, e)
            if len(distinct) == 1:
                return distinct[0]
            return SymInt(e, unary=(k.key, k.var, tab))
        return d[k.concretize()]
    return d[k]


def sym_get(d, k, default=None):
    if isinstance(k, SymStr) and k.conc is None and isinstance(d, dict):
        keys = [s for s in d if isinstance(s, str)]
        if not k.isin(keys):
            return default
        return sym_getitem(d, k)
    return d.get(k, default)
