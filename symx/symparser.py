"""The real parser, loaded from the repository's current source with the
operator-redirecting rewrite, plus translator validation."""
from __future__ import annotations

import sys

from . import loader
from .proxies import sym_in, sym_getitem, sym_get

_MOD = None


def load(fresh=False):
    """module object of the rewritten pycparser/c_parser.py"""
    global _MOD
    if _MOD is not None and not fresh:
        return _MOD
    loader.ensure_repo_on_path()
    import pycparser  # noqa: F401  (package of the repository; c_ast, c_lexer, ast_transforms stay native)

    rw = loader.Rewriter(rewrite_in=True, tables=True, dict_get=True)
    helpers = {"__sym_in__": sym_in, "__sym_getitem__": sym_getitem, "__sym_get__": sym_get}
    mod = loader.load_module("pycparser._symx_c_parser", "pycparser/c_parser.py", helpers, rw)
    mod.__rewrites__ = rw.count
    _MOD = mod
    return mod


def load_generator(fresh=False):
    loader.ensure_repo_on_path()
    rw = loader.Rewriter(rewrite_in=True, tables=False)
    helpers = {"__sym_in__": sym_in, "__sym_getitem__": sym_getitem, "__sym_get__": sym_get}
    return loader.load_module("pycparser._symx_c_generator", "pycparser/c_generator.py", helpers, rw)
