"""Interpreter model of the sre subset used by c_lexer.py, executed on SymText.

The compiled `re` patterns are C extension objects and cannot be executed
symbolically.  They are replaced by this backtracking interpreter of the
*parse tree of the live pattern strings* (re._parser.parse), so an edited regex
is what gets modelled.  Supported: LITERAL, NOT_LITERAL, ANY, IN (LITERAL,
RANGE, NEGATE, CATEGORY digit/word/space and negations), BRANCH (ordered),
SUBPATTERN (groups, lastgroup), greedy MAX_REPEAT with backtracking,
ASSERT / ASSERT_NOT look-ahead, AT_END, AT_END_STRING, AT_BEGINNING(_STRING).
Anything else raises HarnessError: never a guess.

This model is a stub for an FFI boundary; it is validated against the real `re`
on the repository's test inputs and on every solver witness.
"""
from __future__ import annotations

import re
import re._parser as sp
import re._constants as sc

from . import engine as E
from .engine import IntervalSet
from .symtext import SymText, MAXCP

_CAT = {}


def _ranges(pred):
    out = []
    start = None
    for cp in range(MAXCP + 1):
        if pred(chr(cp)):
            if start is None:
                start = cp
        elif start is not None:
            out.append((start, cp - 1))
            start = None
    if start is not None:
        out.append((start, MAXCP))
    return IntervalSet(out)


def category(cat):
    cat = str(cat)
    r = _CAT.get(cat)
    if r is not None:
        return r
    if cat == "CATEGORY_DIGIT":
        r = _ranges(str.isdecimal)
    elif cat == "CATEGORY_NOT_DIGIT":
        r = category("CATEGORY_DIGIT").complement()
    elif cat == "CATEGORY_WORD":
        r = _ranges(lambda ch: ch.isalnum() or ch == "_")
    elif cat == "CATEGORY_NOT_WORD":
        r = category("CATEGORY_WORD").complement()
    elif cat == "CATEGORY_SPACE":
        r = _ranges(str.isspace)
    elif cat == "CATEGORY_NOT_SPACE":
        r = category("CATEGORY_SPACE").complement()
    else:
        raise E.HarnessError(f"sre model: unsupported category {cat}")
    _CAT[cat] = r
    return r


_CLASS_CACHE = {}


def class_set(items):
    key = repr(items)
    r = _CLASS_CACHE.get(key)
    if r is not None:
        return r
    neg = False
    acc = IntervalSet()
    for op, av in items:
        op = str(op)
        if op == "NEGATE":
            neg = True
        elif op == "LITERAL":
            acc = acc | IntervalSet([(av, av)])
        elif op == "RANGE":
            acc = acc | IntervalSet([(av[0], av[1])])
        elif op == "CATEGORY":
            acc = acc | category(av)
        else:
            raise E.HarnessError(f"sre model: unsupported class item {op}")
    r = acc.complement() if neg else acc
    _CLASS_CACHE[key] = r
    return r


NOT_NEWLINE = IntervalSet([(10, 10)]).complement()


class ModelMatch:
    def __init__(self, text, pos, end, groups, lastgroup, names):
        self.text = text
        self.pos = pos
        self.endpos = end
        self.groups_ = groups
        self.lastindex = lastgroup
        self.names = names  # index -> name

    @property
    def lastgroup(self):
        return self.names.get(self.lastindex)

    def _idx(self, g):
        if isinstance(g, str):
            for k, v in self.names.items():
                if v == g:
                    return k
            raise IndexError("no such group")
        return g

    def group(self, g=0):
        g = self._idx(g)
        if g == 0:
            return self.text[self.pos : self.endpos]
        if g not in self.groups_:
            return None
        a, b = self.groups_[g]
        return self.text[a:b]

    def end(self, g=0):
        g = self._idx(g)
        return self.endpos if g == 0 else self.groups_[g][1]

    def start(self, g=0):
        g = self._idx(g)
        return self.pos if g == 0 else self.groups_[g][0]

    def span(self, g=0):
        return (self.start(g), self.end(g))


class ModelPattern:
    def __init__(self, pattern, flags=0):
        if flags:
            raise E.HarnessError("sre model: flags are not modelled")
        self.pattern = pattern
        self.tree = sp.parse(pattern)
        self.names = {v: k for k, v in self.tree.state.groupdict.items()}
        self.groupindex = dict(self.tree.state.groupdict)
        self.real = re.compile(pattern)

    # ---- public API used by the lexer
    def match(self, text, pos=0, endpos=None):
        if not isinstance(text, SymText):
            return self.real.match(text, pos) if endpos is None else self.real.match(text, pos, endpos)
        n = len(text)
        res = self._m(list(self.tree), text, pos, n, {}, None, lambda p, g, lg: (p, g, lg))
        if res is None:
            return None
        p, g, lg = res
        return ModelMatch(text, pos, p, g, lg, self.names)

    def fullmatch(self, text, pos=0):
        if not isinstance(text, SymText):
            return self.real.fullmatch(text, pos)
        n = len(text)
        res = self._m(list(self.tree), text, pos, n, {}, None, lambda p, g, lg: (p, g, lg) if p == n else None)
        if res is None:
            return None
        p, g, lg = res
        return ModelMatch(text, pos, p, g, lg, self.names)

    def all_ends(self, text, pos=0):
        """every end position at which a match starting at pos can end (backtracking exhausted)"""
        n = len(text)
        ends = set()

        def k(p, g, lg):
            ends.add(p)
            return None

        self._m(list(self.tree), text, pos, n, {}, None, k)
        return ends

    # ---- CPS backtracking matcher: returns result of k or None
    def _m(self, items, text, pos, n, groups, lastg, k):
        if not items:
            return k(pos, groups, lastg)
        (op, av), rest = items[0], items[1:]
        if op is sc.LITERAL:
            if pos < n and text.test(pos, IntervalSet([(av, av)])):
                return self._m(rest, text, pos + 1, n, groups, lastg, k)
            return None
        if op is sc.NOT_LITERAL:
            if pos < n and not text.test(pos, IntervalSet([(av, av)])):
                return self._m(rest, text, pos + 1, n, groups, lastg, k)
            return None
        if op is sc.IN:
            if pos < n and text.test(pos, class_set(av)):
                return self._m(rest, text, pos + 1, n, groups, lastg, k)
            return None
        if op is sc.ANY:
            if pos < n and text.test(pos, NOT_NEWLINE):
                return self._m(rest, text, pos + 1, n, groups, lastg, k)
            return None
        if op is sc.SUBPATTERN:
            gid, add_flags, del_flags, sub = av
            if add_flags or del_flags:
                raise E.HarnessError("sre model: inline flags")

            def after(p, g, lg, gid=gid, start=pos):
                if gid is not None:
                    g = dict(g)
                    g[gid] = (start, p)
                    lg = gid
                return self._m(rest, text, p, n, g, lg, k)

            return self._m(list(sub), text, pos, n, groups, lastg, after)
        if op is sc.BRANCH:
            for alt in av[1]:
                r = self._m(list(alt) + rest, text, pos, n, groups, lastg, k)
                if r is not None:
                    return r
            return None
        if op is sc.MAX_REPEAT:
            lo, hi, sub = av
            sub = list(sub)

            def rep(count, p, g, lg):
                if hi is sc.MAXREPEAT or count < hi:

                    def after(p2, g2, lg2):
                        if p2 == p and count >= lo:  # empty iteration: sre stops repeating
                            return None
                        return rep(count + 1, p2, g2, lg2)

                    r = self._m(sub, text, p, n, g, lg, after)
                    if r is not None:
                        return r
                if count >= lo:
                    return self._m(rest, text, p, n, g, lg, k)
                return None

            return rep(0, pos, groups, lastg)
        if op is sc.ASSERT or op is sc.ASSERT_NOT:
            direction, sub = av
            if direction != 1:
                raise E.HarnessError("sre model: look-behind")
            r = self._m(list(sub), text, pos, n, groups, lastg, lambda p, g, lg: (p, g, lg))
            ok = (r is not None) if op is sc.ASSERT else (r is None)
            if not ok:
                return None
            if op is sc.ASSERT and r is not None:
                groups, lastg = r[1], r[2]
            return self._m(rest, text, pos, n, groups, lastg, k)
        if op is sc.AT:
            if av is sc.AT_END:
                if pos == n or (pos == n - 1 and text.test(pos, IntervalSet([(10, 10)]))):
                    return self._m(rest, text, pos, n, groups, lastg, k)
                return None
            if av is sc.AT_END_STRING:
                if pos == n:
                    return self._m(rest, text, pos, n, groups, lastg, k)
                return None
            if av is sc.AT_BEGINNING or av is sc.AT_BEGINNING_STRING:
                if pos == 0:
                    return self._m(rest, text, pos, n, groups, lastg, k)
                return None
            raise E.HarnessError(f"sre model: unsupported anchor {av}")
        raise E.HarnessError(f"sre model: unsupported opcode {op}")


class ReShim:
    """stands in for module `re` inside the rewritten lexer"""

    Pattern = re.Pattern
    Match = re.Match

    def __init__(self):
        self.cache = {}

    def compile(self, pat, flags=0):
        if isinstance(pat, ModelPattern):
            return pat
        key = (pat, flags)
        if key not in self.cache:
            self.cache[key] = ModelPattern(pat, flags)
        return self.cache[key]

    def match(self, pat, text, flags=0):
        return self.compile(pat, flags).match(text, 0)

    def fullmatch(self, pat, text, flags=0):
        return self.compile(pat, flags).fullmatch(text, 0)

    def __getattr__(self, name):
        raise E.HarnessError(f"re.{name} is not modelled")
