"""Span rules for node coordinates, usable on both sides (no third-party imports):
the symbolic check feeds token indices proved by z3, the replay feeds the token
indices it reads back from the layout (token k sits at file f<k>.c, line 100+k).

tree = (class name, j or None, [(field, child tree, in_list)])
Rules (a node's coordinate designates token j):
  (a) for expression and statement nodes, j is not after every coordinate token of its descendants
      (declarator nodes are exempt: an abstract declarator's '[' or '*' follows the specifier tokens);
  (b) for expression and statement nodes, no child's coordinate token is before the parent's;
  (c) in a list of block items / external declarations / case statements / arguments / initializers,
      the coordinate tokens strictly increase.
"""

EXPR_STMT = {
    "UnaryOp", "BinaryOp", "Assignment", "TernaryOp", "FuncCall", "ArrayRef", "StructRef", "ExprList", "Cast",
    "Compound", "If", "While", "DoWhile", "For", "Switch", "Case", "Default", "Label", "Return", "FuncDef",
}
ORDERED_LISTS = {("Compound", "block_items"), ("FileAST", "ext"), ("Case", "stmts"), ("Default", "stmts"), ("ExprList", "exprs"), ("InitList", "exprs"),
                 ("ParamList", "params"), ("EnumeratorList", "enumerators")}


def max_desc(tree):
    cls, j, kids = tree
    m = None
    for _, k, _ in kids:
        for v in (k[1], max_desc(k)):
            if v is not None and (m is None or v > m):
                m = v
    return m


def check(tree, problems=None, path=""):
    problems = [] if problems is None else problems
    cls, j, kids = tree
    here = path + "/" + cls
    if j is not None:
        md = max_desc(tree) if cls in EXPR_STMT else None
        if md is not None and j > md:
            problems.append((cls, f"coordinate token #{j} lies after all coordinate tokens of the construct's parts (last is #{md})"))
        if cls in EXPR_STMT:
            for field, k, _ in kids:
                if k[1] is not None and k[1] < j and not (cls == "FuncDef" and field in ("decl", "param_decls")):
                    problems.append((cls, f"part {field} ({k[0]}) has coordinate token #{k[1]} before the construct's own #{j}"))
    last = {}
    for field, k, in_list in kids:
        if in_list and (cls, field) in ORDERED_LISTS and k[1] is not None:
            prev = last.get(field)
            if prev is not None and k[1] <= prev:
                problems.append((cls, f"items of {field} are not in source order by coordinate (#{prev} then #{k[1]})"))
            last[field] = k[1]
        check(k, problems, here)
    return problems
