"""The real lexer loaded from the repository's current source, with the C regex
engine replaced by the sre interpreter model (built from the live pattern
strings) so that it can run on symbolic text; plus translator validation."""
from __future__ import annotations

import re

import z3

from . import engine as E
from . import loader
from .engine import IntervalSet
from .sremodel import ReShim, ModelPattern
from .symtext import SymBase, SymText, sym_in, sym_get, sym_getitem, sym_int
from .proxies import SymInt

_MOD = None


def load(fresh=False):
    global _MOD
    if _MOD is not None and not fresh:
        return _MOD
    loader.ensure_repo_on_path()
    import pycparser  # noqa: F401

    rw = loader.Rewriter(rewrite_in=True, tables=True, dict_get=True, int_call=True)
    helpers = {"__sym_in__": sym_in, "__sym_getitem__": sym_getitem, "__sym_get__": sym_get, "__sym_int__": sym_int}
    mod = loader.load_module("pycparser._symx_c_lexer", "pycparser/c_lexer.py", helpers, rw)
    shim = ReShim()
    replaced = []
    for name, val in list(vars(mod).items()):
        if isinstance(val, re.Pattern):
            setattr(mod, name, shim.compile(val.pattern, 0))
            if val.flags & ~re.UNICODE:
                raise E.HarnessError(f"c_lexer.{name} uses regex flags {val.flags}: not modelled")
            replaced.append(name)
    mod.re = shim
    mod.__sre_model__ = shim
    mod.__replaced_patterns__ = replaced
    mod.__rewrites__ = rw.count
    _MOD = mod
    return mod


class ConcreteEngine(E.Engine):
    """engine for running the model on concrete text: every decision must be a cache hit"""

    def decide(self, expr):
        raise E.HarnessError("decision on concrete input")


def concrete_symtext(s, name="v"):
    """SymText whose code points have singleton domains (no solver involved)"""
    base = SymBase(len(s), name=name)
    eng = E.cur()
    for i, ch in enumerate(s):
        eng.base_dom[(name, i)] = IntervalSet.of(ord(ch))
    eng.base_dom[(name, "len")] = frozenset([len(s)])
    return SymText(base)


def tokens_of(lexmod, text, types=(), maxtok=100000):
    errs = []
    lx = lexmod.CLexer(lambda m, l, c: errs.append((str(m), _c(l), _c(c))), lambda: None, lambda: None, lambda n: n in types)
    lx.input(text, "t.c")
    toks = []
    for _ in range(maxtok):
        t = lx.token()
        if t is None:
            break
        toks.append((str(t.type), t.value, _c(t.lineno), _c(t.column)))
    return toks, errs, lx.filename


def _c(x):
    return x


def validate_lexer_translation(symmod, snippets, max_len=600):
    """the rewritten lexer running on the sre model (concrete text as singleton-domain
    SymText) must produce exactly the tokens/errors of the untouched lexer"""
    import sys

    native = loader.native("c_lexer")
    n = 0
    old = E.ENG
    oldlim = sys.getrecursionlimit()
    sys.setrecursionlimit(max(oldlim, 60000))
    try:
        for s in snippets:
            if len(s) > max_len:
                continue
            try:
                a = tokens_of(native, s)
            except Exception as e:  # the untouched lexer itself raised: compare exception type
                a = ("exc", type(e).__name__)
            E.ENG = ConcreteEngine()
            st = concrete_symtext(s)
            try:
                toks, errs, fn = tokens_of(symmod, st)
                m = None
                toks = [(t, _conc(v, s), l, c) for t, v, l, c in toks]
                errs = [(_fill(msg, s), l, c) for msg, l, c in errs]
                b = (toks, errs, _conc(fn, s) if isinstance(fn, SymText) else fn)
            except E.HarnessError:
                raise
            except Exception as e:
                b = ("exc", type(e).__name__)
            n += 1
            if a != b:
                raise E.HarnessError(f"lexer translator validation failed on {s[:60]!r}:\n native={str(a)[:300]}\n model ={str(b)[:300]}")
    finally:
        E.ENG = old
        sys.setrecursionlimit(oldlim)
    return n


def _conc(v, s):
    if isinstance(v, SymText):
        a, b = v.span()
        return s[a:b]
    return v


def _fill(msg, s):
    """replace placeholders of symbolic chars/slices in an error message by the concrete text"""

    def rep_c(m):
        return s[int(m.group(1))]

    def rep_s(m):
        a = int(m.group(1))
        b = int(m.group(2)) if m.group(2) else len(s)
        return s[a:b]

    # repr(SymChar) is 'placeholder' in quotes; the native message uses repr(char)
    msg = re.sub("'\x01Cv(\\d+)\x02'", lambda m: repr(s[int(m.group(1))]), msg)
    msg = re.sub("\x01Cv(\\d+)\x02", rep_c, msg)
    msg = re.sub("\x01Sv(\\d+):(\\d*)\x02", rep_s, msg)
    return msg
