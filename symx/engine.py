"""symx engine: depth-first dynamic symbolic execution with replay.

The harness is an ordinary Python callable that runs *real* pycparser code on
proxy inputs.  Whenever the code needs the truth value of something that
depends on a symbolic input it ends up in `Engine.decide(expr)` with a z3
Boolean.  `decide` is the only place where a path can fork.  The explorer
re-runs the harness from the start forcing the recorded prefix of decisions,
and at the first new decision asks z3 whether `pc & expr` and `pc & ~expr` are
satisfiable.  When the frontier is empty the feasible paths partition the
input space of the template, which is the exhaustiveness argument.

A finite-domain cache (`decide_member`) answers decisions on a single
finite-domain variable (token kind k_i, code point c_i ...) whose truth value
already follows from the unary constraints collected on this path, without a
solver query.  Forks are always confirmed by z3.
"""
from __future__ import annotations

import os
import sys
import time
import multiprocessing as mp

import z3


class Abort(BaseException):
    """Path abandoned by the explorer (prefix enumeration, time budget)."""


class HarnessError(Exception):
    """The encoding / a stub cannot handle what the code did.  Never a verdict."""


EXIT_HARNESS_ERROR = 3

ENG: "Engine" = None  # the engine of the exploration currently running


def cur() -> "Engine":
    return ENG


class IntervalSet:
    """finite union of closed integer intervals, normalised (sorted, disjoint, non-adjacent)"""

    __slots__ = ("iv", "_k")

    def __init__(self, iv=()):
        iv = sorted((a, b) for a, b in iv if a <= b)
        out = []
        for a, b in iv:
            if out and a <= out[-1][1] + 1:
                if b > out[-1][1]:
                    out[-1] = (out[-1][0], b)
            else:
                out.append((a, b))
        self.iv = tuple(out)
        self._k = None

    @staticmethod
    def of(*points):
        return IntervalSet([(p, p) for p in points])

    def key(self):
        return self.iv

    def empty(self):
        return not self.iv

    def __eq__(self, o):
        return isinstance(o, IntervalSet) and self.iv == o.iv

    def __hash__(self):
        return hash(self.iv)

    def __and__(self, o):
        out = []
        i = j = 0
        a, b = self.iv, o.iv
        while i < len(a) and j < len(b):
            lo = max(a[i][0], b[j][0])
            hi = min(a[i][1], b[j][1])
            if lo <= hi:
                out.append((lo, hi))
            if a[i][1] < b[j][1]:
                i += 1
            else:
                j += 1
        r = IntervalSet.__new__(IntervalSet)
        r.iv = tuple(out)
        r._k = None
        return r

    def __or__(self, o):
        return IntervalSet(self.iv + o.iv)

    def complement(self, lo=0, hi=0x10FFFF):
        out = []
        cur = lo
        for a, b in self.iv:
            if a > cur:
                out.append((cur, a - 1))
            cur = max(cur, b + 1)
        if cur <= hi:
            out.append((cur, hi))
        return IntervalSet(out)

    def __sub__(self, o):
        return self & o.complement(-(10 ** 9), 10 ** 9)

    def __contains__(self, x):
        return any(a <= x <= b for a, b in self.iv)

    def min(self):
        return self.iv[0][0]

    def size(self):
        return sum(b - a + 1 for a, b in self.iv)

    def sample(self, prefer=()):
        for p in prefer:
            if p in self:
                return p
        return self.iv[0][0]

    def __repr__(self):
        return "IS" + repr(list(self.iv))


class Stats(dict):
    def inc(self, k, n=1):
        self[k] = self.get(k, 0) + n

    def merge(self, other):
        for k, v in other.items():
            if isinstance(v, (int, float)):
                self[k] = self.get(k, 0) + v


class Engine:
    def __init__(self, constraints=()):
        self.solver = z3.Solver()
        for c in constraints:
            self.solver.add(c)
        self.trail = []  # [taken, flippable]
        self.pos = 0
        self.forced = 0  # length of the non-flippable forced prefix
        self.depth_limit = None  # prefix enumeration: abort at fresh decision #depth_limit
        self.cut_level = None  # prefix enumeration: abort when the harness reaches this input position
        self.deadline = None
        self.st = Stats()
        self.tsolver = 0.0
        # finite-domain layer
        self.base_dom = {}  # var key -> frozenset of ints
        self.dom = {}
        self._memb = {}
        self.asserted = 0  # trail entries whose constraint currently sits in the solver (one scope each)
        self._negs = {}
        self._ctx = self.solver.ctx.ref()
        self.tainted_decisions = 0  # decisions that mentioned a "must not matter" variable
        self.path_notes = []

    # ---------------------------------------------------------------- solver
    def _check(self, e):
        t = time.perf_counter()
        r = str(self.solver.check(e))
        self.tsolver += time.perf_counter() - t
        self.st.inc("q_" + r)
        return r

    def begin_path(self):
        self.pos = 0
        self.dom = {}
        self.path_notes = []

    def _assert(self, expr, taken):
        """constraint of trail entry #asserted goes into its own solver scope"""
        self.solver.push()
        if not taken:
            expr = self._neg(expr)
        z3.Z3_solver_assert(self._ctx, self.solver.solver, expr.as_ast())
        self.asserted += 1

    def _neg(self, expr):
        i = expr.get_id()
        n = self._negs.get(i)
        if n is None:
            n = self._negs[i] = (z3.Not(expr), expr)  # keep expr alive: ids are reused after GC
        return n[0]

    def decide(self, expr) -> bool:
        """Truth value of z3 Bool `expr` on the current path (forks)."""
        pos = self.pos
        if pos < len(self.trail):
            taken = self.trail[pos][0]
            self.pos = pos + 1
            if pos >= self.asserted:
                self._assert(expr, taken)
            return taken
        if self.depth_limit is not None and len(self.trail) >= self.depth_limit:
            raise Abort("depth")
        if self.deadline is not None and time.time() > self.deadline:
            raise Abort("deadline")
        rt = self._check(expr)
        if rt == "unsat":
            t_ok, f_ok = False, True
        else:
            if rt != "sat":
                self.st.inc("unknown_branches")
            t_ok = True
            rf = self._check(self._neg(expr))
            f_ok = rf != "unsat"
            if rf not in ("sat", "unsat"):
                self.st.inc("unknown_branches")
        taken = t_ok
        self.trail.append([taken, t_ok and f_ok])
        self.pos = pos + 1
        self.st.inc("decisions")
        self._assert(expr, taken)
        return taken

    def at_input_position(self, i):
        """called by input proxies when input item i is first requested; used to
        cut paths during prefix enumeration"""
        if self.cut_level is not None and i >= self.cut_level and self.pos >= len(self.trail):
            raise Abort("depth")

    # ------------------------------------------------- finite-domain variables
    def declare_fd(self, key, var, domain):
        """`var` (z3 Int) ranges over the finite set `domain`; constraint added."""
        domain = frozenset(domain)
        self.base_dom[key] = domain
        lo, hi = min(domain), max(domain)
        if len(domain) == hi - lo + 1:
            self.solver.add(var >= lo, var <= hi)
        else:
            self.solver.add(z3.Or([var == j for j in sorted(domain)]))

    def member_expr(self, key, var, idxs):
        ck = (key, idxs)
        e = self._memb.get(ck)
        if e is None:
            s = sorted(idxs)
            if len(s) == 1:
                e = var == s[0]
            else:
                # contiguous runs become range tests
                parts = []
                a = b = s[0]
                for j in s[1:]:
                    if j == b + 1:
                        b = j
                        continue
                    parts.append(var == a if a == b else z3.And(var >= a, var <= b))
                    a = b = j
                parts.append(var == a if a == b else z3.And(var >= a, var <= b))
                e = parts[0] if len(parts) == 1 else z3.Or(parts)
            self._memb[ck] = e
        return e

    def decide_member(self, key, var, idxs) -> bool:
        """Truth of `var in idxs` for a finite-domain variable."""
        if not isinstance(idxs, frozenset):
            idxs = frozenset(idxs)
        d = self.dom.get(key)
        if d is None:
            d = self.dom[key] = self.base_dom[key]
        inter = d & idxs
        if not inter:
            self.st.inc("cache_hits")
            return False
        if len(inter) == len(d):
            self.st.inc("cache_hits")
            return True
        r = self.decide(self.member_expr(key, var, idxs))
        self.dom[key] = inter if r else d - idxs
        return r

    # ------------------------------------------------- interval-domain variables (code points)
    def declare_iv(self, key, var, lo, hi):
        self.base_dom[key] = IntervalSet([(lo, hi)])
        self.solver.add(var >= lo, var <= hi)

    def iv_expr(self, key, var, iset):
        ck = (key, iset.key())
        e = self._memb.get(ck)
        if e is None:
            parts = [var == a if a == b else z3.And(var >= a, var <= b) for a, b in iset.iv]
            e = parts[0] if len(parts) == 1 else z3.Or(parts)
            self._memb[ck] = e
        return e

    def decide_in(self, key, var, iset) -> bool:
        """Truth of `var in iset` (IntervalSet) for an interval-domain variable."""
        d = self.dom.get(key)
        if d is None:
            d = self.dom[key] = self.base_dom[key]
        inter = d & iset
        if inter.empty():
            self.st.inc("cache_hits")
            return False
        if inter == d:
            self.st.inc("cache_hits")
            return True
        r = self.decide(self.iv_expr(key, var, iset))
        self.dom[key] = inter if r else d - iset
        return r

    def current_dom(self, key):
        d = self.dom.get(key)
        return self.base_dom[key] if d is None else d

    # ------------------------------------------------------------ exploration
    def model(self):
        r = self._check(z3.BoolVal(True))
        if r != "sat":
            return None
        return self.solver.model()

    def prove(self, claim):
        """Is `claim` implied by the current path condition?  -> 'proved' | model | 'unknown'"""
        r = self._check(z3.Not(claim))
        self.st.inc("obligations")
        if r == "unsat":
            self.st.inc("obligations_discharged")
            return "proved"
        if r == "sat":
            return self.solver.model()
        return "unknown"

    def explore(self, fn, prefix=()):
        """Run fn() over every feasible path below `prefix`; yields fn's results.
        Paths cut by Abort yield ('__abort__', reason, decisions-so-far)."""
        self.trail = [[bool(t), False] for t in prefix]
        self.forced = len(self.trail)
        self.asserted = 0
        while True:
            self.begin_path()
            try:
                out = fn()
            except Abort as a:
                out = ("__abort__", str(a), tuple(t for t, _ in self.trail))
            aborted = isinstance(out, tuple) and len(out) == 3 and out[0] == "__abort__"
            if self.pos < len(self.trail) and not aborted:
                raise HarnessError(
                    f"non-deterministic harness: replay consumed {self.pos} of {len(self.trail)} decisions"
                )
            self.st.inc("paths")
            yield out
            if aborted and out[1] == "deadline":
                return
            while self.trail and not self.trail[-1][1]:
                self.trail.pop()
            if len(self.trail) <= self.forced:
                return
            self.trail[-1][0] = not self.trail[-1][0]
            self.trail[-1][1] = False
            keep = len(self.trail) - 1
            if self.asserted > keep:
                self.solver.pop(self.asserted - keep)
                self.asserted = keep

    def frontier(self):
        """number of open alternatives left on the trail (lower bound on unexplored paths)"""
        return sum(1 for t in self.trail[self.forced:] if t[1])


# ---------------------------------------------------------------------------
# parallel driver
# ---------------------------------------------------------------------------
class Job:
    """One exploration: `make_engine()` builds an Engine (declares variables),
    `once()` runs one path and returns a picklable record
    {'cls': str, 'viol': None|dict, 'sample': None|obj, ...}."""

    def __init__(self, name, make_engine, once, max_samples=6, max_viol=40, split=None):
        self.name = name
        self.split = split  # ("input", level) | ("depth", d) | None
        self.make_engine = make_engine
        self.once = once
        self.max_samples = max_samples
        self.max_viol = max_viol


class Result:
    def __init__(self):
        self.classes = Stats()
        self.stats = Stats()
        self.violations = []
        self.samples = []
        self.witnesses = {}
        self.frontier = 0
        self.aborted = 0
        self.tsolver = 0.0
        self.wall = 0.0
        self.extra = {}

    @property
    def paths(self):
        return self.stats.get("paths", 0) - self.aborted

    @property
    def exhaustive(self):
        return self.frontier == 0 and self.aborted == 0 and not self.stats.get("unknown_branches") and not self.stats.get("q_unknown")

    def absorb(self, job, rec):
        if isinstance(rec, tuple) and rec and rec[0] == "__abort__":
            self.aborted += 1
            return
        self.classes.inc(rec.get("cls", "?"))
        v = rec.get("viol")
        if v:
            vs = v if isinstance(v, list) else [v]
            for x in vs:
                if len(self.violations) < job.max_viol or x.get("sig") not in {y.get("sig") for y in self.violations}:
                    self.violations.append(x)
        s = rec.get("sample")
        if s is not None and len(self.samples) < job.max_samples:
            self.samples.append(s)
        for k, w in (rec.get("witness") or {}).items():
            self.witnesses.setdefault(k, w)
        for k, n in (rec.get("count") or {}).items():
            self.extra[k] = self.extra.get(k, 0) + n

    def merge(self, job, o):
        self.classes.merge(o.classes)
        self.stats.merge(o.stats)
        for x in o.violations:
            if len(self.violations) < job.max_viol * 4:
                self.violations.append(x)
        for s in o.samples:
            if len(self.samples) < job.max_samples:
                self.samples.append(s)
        for k, w in o.witnesses.items():
            self.witnesses.setdefault(k, w)
        for k, n in o.extra.items():
            self.extra[k] = self.extra.get(k, 0) + n
        self.frontier += o.frontier
        self.aborted += o.aborted
        self.tsolver += o.tsolver


_JOB: Job = None
_DEADLINE = None
_CHECK_T0 = time.time()


def _run_prefix(prefix):
    global ENG
    job = _JOB
    res = Result()
    eng = ENG = job.make_engine()
    eng.deadline = _DEADLINE
    for rec in eng.explore(job.once, prefix):
        res.absorb(job, rec)
    res.stats.merge(eng.st)
    res.frontier = eng.frontier()
    if res.aborted:
        res.frontier += 1
    res.tsolver = eng.tsolver
    return res


def _enumerate(job, depth, level=None):
    """Explore down to `depth` fresh decisions (or input position `level`).
    Complete paths are absorbed, cut paths give prefixes."""
    global ENG
    res = Result()
    eng = ENG = job.make_engine()
    eng.depth_limit = depth
    eng.cut_level = level
    eng.deadline = _DEADLINE
    prefixes = []
    for rec in eng.explore(job.once, ()):
        if isinstance(rec, tuple) and rec and rec[0] == "__abort__":
            if rec[1] == "deadline":
                res.aborted += 1
                res.frontier += eng.frontier() + 1
            else:
                prefixes.append(rec[2])
        else:
            res.absorb(job, rec)
    eng.st["paths"] = eng.st.get("paths", 0) - len(prefixes) - res.aborted
    res.stats.merge(eng.st)
    res.tsolver = eng.tsolver
    return res, prefixes


def run_job(job: Job, workers=None, budget_s=None, split_target=None) -> Result:
    """Explore `job` exhaustively using `workers` processes."""
    global _JOB, _DEADLINE, ENG
    t0 = time.time()
    workers = workers or int(os.environ.get("VERIF_WORKERS", "0")) or min(8, os.cpu_count() or 1)
    _JOB = job
    if budget_s is None:
        # wall budget per exploration: a run that does not finish is reported as non-exhaustive, never as a pass of the whole space
        budget_s = float(os.environ.get("VERIF_JOB_BUDGET", "0") or 0) or (900 if os.environ.get("VERIF_TIER", "quick") == "quick" else 5400)
    # ... and per check: when it is used up the remaining explorations are cut at once
    check_budget = float(os.environ.get("VERIF_CHECK_BUDGET", "0") or 0) or (2700 if os.environ.get("VERIF_TIER", "quick") == "quick" else 4 * 3600)
    left = _CHECK_T0 + check_budget - t0
    budget_s = max(1.0, min(budget_s, left))
    _DEADLINE = (t0 + budget_s) if budget_s else None
    if workers <= 1:
        res = _run_prefix(())
        res.wall = time.time() - t0
        return res
    split_target = split_target or workers * 8
    if job.split and job.split[0] == "input":
        depth = None
        res, prefixes = _enumerate(job, None, job.split[1])
    else:
        depth = job.split[1] if job.split else 8
        while True:
            res, prefixes = _enumerate(job, depth)
            if job.split or not prefixes or len(prefixes) >= split_target or depth >= 24:
                break
            depth += 8
    res.extra["t_enumerate"] = round(time.time() - t0, 2)
    if prefixes:
        ctx = mp.get_context("fork")
        with ctx.Pool(workers) as pool:
            for r in pool.imap_unordered(_run_prefix, prefixes, chunksize=1):
                res.merge(job, r)
    res.extra["split_depth"] = depth
    res.extra["split_prefixes"] = len(prefixes)
    res.wall = time.time() - t0
    ENG = None
    return res
