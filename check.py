#!/usr/bin/env python3-vt
"""Entry point:  python3-vt /verif/check.py <PROPERTY-ID> [quick|thorough]

Regenerates the encoding from the repository's current source (VERIF_REPO,
default /repo), runs the property's solver-based check, rewrites
/verif/evidence/<id>.json and exits 0 (held on everything explored), 1
(VIOLATION line printed, replay file written) or 3 (harness error, no verdict).
"""
import importlib
import os
import sys

HERE = os.path.dirname(os.path.abspath(__file__))


def main():
    if len(sys.argv) < 2:
        print(__doc__)
        return 2
    pid = sys.argv[1].upper()
    if len(sys.argv) > 2:
        os.environ["VERIF_TIER"] = sys.argv[2]
    if os.environ.get("PYTHONHASHSEED") != "0":
        os.environ["PYTHONHASHSEED"] = "0"
        os.execv(sys.executable, [sys.executable] + sys.argv)
    sys.path.insert(0, HERE)
    sys.setrecursionlimit(3000)
    mod = importlib.import_module(f"checks.{pid.lower()}")
    from symx import checklib

    checklib.run_main(mod.main)


if __name__ == "__main__":
    sys.exit(main())
