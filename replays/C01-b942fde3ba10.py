#!/usr/bin/env python
# interpreter: python3-vt
"""Stand-alone replay of a counterexample for property C01.
Run with:  python3-vt /verif/replays/C01-b942fde3ba10.py      (or: python3 /verif/tools/replay.py /verif/replays/C01-b942fde3ba10.py)
Exit status 1 = the violation reproduces on the package under /repo; 0 = it does not.
[rejected-valid:Non-typedef 'T':INT,IDENT] valid translation unit rejected: f.c:1:13: Non-typedef 'T' previously declared as typedef in this scope -- input 'typedef int T ; int x ( x , y ) int T ; { }\n' (1 path classes)
"""
import sys, json
sys.path.insert(0, '/repo')
sys.path.insert(0, '/verif')
from symx import toklex, diffharness as D
toks = [('TYPEDEF', 'typedef'), ('INT', 'int'), ('IDENT', 'T'), ('SEMI', ';'), ('INT', 'int'), ('IDENT', 'x'), ('LPAREN', '('), ('IDENT', 'x'), ('COMMA', ','), ('IDENT', 'y'), ('RPAREN', ')'), ('INT', 'int'), ('IDENT', 'T'), ('SEMI', ';'), ('LBRACE', '{'), ('RBRACE', '}')]
toks = [tuple(t) for t in toks]
alpha = toklex.Alphabet(sorted(set(toks)))
kind, repro, text, detail = D.replay_tree(alpha, toks)
print('input :', repr(text)); print('result:', kind, detail)
sys.exit(1 if repro else 0)

