#!/usr/bin/env python
# interpreter: /venv/bin/python
"""Stand-alone replay of a counterexample for property C07.
Run with:  /venv/bin/python /verif/replays/C07-a526e1bc164b.py      (or: python3 /verif/tools/replay.py /verif/replays/C07-a526e1bc164b.py)
Exit status 1 = the violation reproduces on the package under /repo; 0 = it does not.
[roundtrip:reparse-fails:before: =:case] generated text (reduce_parentheses=False) does not parse: ParseError: f.c:6:12: before: = -- generated 'typedef int T;\nvoid y(void)\n{\n  switch (x)\n  {\n    case 1 = x:\n      ;\n\n    default:\n      ;\n\n  }\n\n}\n\n' -- source 'typedef int T ; void y ( void ) { switch ( x ) { case ( 1 = x ) : ; default : ; } }\n' (4 classes)
"""
import sys, json
sys.path.insert(0, '/repo')
from pycparser.c_parser import CParser
from pycparser.c_generator import CGenerator
text = 'typedef int T ; void y ( void ) { switch ( x ) { case ( 1 = x ) : ; default : ; } }\n'
def dump(n):
    import io
    b = io.StringIO(); n.show(buf=b, attrnames=True, nodenames=True); return b.getvalue()
a1 = CParser().parse(text)
bad = []
for rp in (False, True):
    try:
        g1 = CGenerator(reduce_parentheses=rp).visit(a1); a2 = CParser().parse(g1); g2 = CGenerator(reduce_parentheses=rp).visit(a2)
    except Exception as e:
        bad.append((rp, type(e).__name__, str(e))); continue
    if dump(a1) != dump(a2) or g1 != g2: bad.append((rp, g1, g2))
print(bad); sys.exit(1 if bad else 0)

